export GOFLAGS=-mod=mod GOPROXY=off GOSUMDB=off GOTOOLCHAIN=local
export GOCACHE=/verif/.cache/go-build

#!/bin/bash
# verify_seed.sh <dir with patch.diff, *_test.go, meta.json>  -> checks on a scratch worktree of /repo HEAD:
#   patch applies, suite passes with it, demo fails with it, demo passes without it.
. /verif/env.sh
d=$1; name=$(basename $(dirname $d))-$(basename $d)
wt=/tmp/vs-$name
git -C /repo worktree remove --force $wt 2>/dev/null
git -C /repo worktree add -q --detach $wt HEAD || exit 2
trap "git -C /repo worktree remove --force $wt; rm -rf $wt" EXIT
cd $wt
if ! git apply --check $d/patch.diff 2>/dev/null; then
  if ! git apply -3 $d/patch.diff >/dev/null 2>&1; then echo "$name: PATCH-DOES-NOT-APPLY"; exit 1; fi
  git diff HEAD -- . ':(exclude)*_test.go' > $d/patch.rebased.diff
else
  git apply $d/patch.diff
fi
suite=$(go test -mod=mod -vet=off -count=1 ./... 2>&1 | grep -v "no test files" | grep -cv "^ok")
demo=$(ls $d/*_test.go | head -1)
democmd=$(python3 -c "import json;print(json.load(open('$d/meta.json'))['demo_cmd'])")
# place demo file: jparse demos go to jparse/
target=.
case "$democmd" in *"./jparse"*) target=jparse;; *"./jlib/jxpath"*) target=jlib/jxpath;; *"./jlib"*) target=jlib;; esac
cp $demo $target/
run=$(echo "$democmd" | sed -e 's/.*-run \([^ ]*\).*/\1/')
pkg=./$target
with=$(go test -mod=mod -vet=off -count=1 -run "$run" $pkg 2>&1 | tail -1 | cut -c1-40)
git apply -R ${d}/patch.rebased.diff 2>/dev/null || git apply -R $d/patch.diff
without=$(go test -mod=mod -vet=off -count=1 -run "$run" $pkg 2>&1 | tail -1 | cut -c1-40)
echo "$name: suite_nonok=$suite with=[$with] without=[$without]"

#!/usr/bin/env python3
"""Insert/refresh the 'As built' paragraph of every property section of DESIGN.md from MANIFEST.json."""
import json, re, textwrap
m = json.load(open('/verif/MANIFEST.json'))
s = open('/verif/DESIGN.md').read()
# drop existing paragraphs
s = re.sub(r'\n\*\*As built\.\*\*.*?(?=\n### C|\n## 6\.)', '\n', s, flags=re.S)
for c in m['checks']:
    pid = c['property_id']
    text = c['level_claimed']['text'].replace('Bounded exhaustive model checking: ', '')
    para = '**As built.** ' + text + ' *Trusted / not covered:* ' + c['level_note']
    para = '\n'.join(textwrap.wrap(para, 80)) + '\n'
    # end of this section = next "### C" heading or "## 6."
    i = s.index('\n### ' + pid + ' ')
    nxt = [j for j in (s.find('\n### C', i + 5), s.find('\n## 6.', i + 5)) if j >= 0]
    j = min(nxt)
    body = s[i:j].rstrip('\n')
    body = re.sub(r'\n---\s*$', '', body).rstrip('\n')
    s = s[:i] + body + '\n\n' + para + '\n---\n' + s[j:]
open('/verif/DESIGN.md', 'w').write(s)
print('ok')

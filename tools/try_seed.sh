#!/bin/bash
# try_seed.sh <seed id e.g. C03-m1> [property id] [tier]: apply the seeded change to /repo, run the check, undo it.
s=$1; p=${2:-${s%%-*}}; t=${3:-quick}
cd /repo && git diff --quiet || { echo "/repo not clean"; exit 2; }
git -C /repo apply /verif/seeded/$s/patch.diff || { echo "$s: patch does not apply"; exit 2; }
cd /verif && ./run.sh $p $t > /tmp/try-$s-$p.log 2>&1; rc=$?
git -C /repo checkout -- .
nv=$(grep -c '^VIOLATION' /tmp/try-$s-$p.log)
echo "$s vs $p($t): exit=$rc violations=$nv :: $(grep -A3 '^VIOLATION' /tmp/try-$s-$p.log | sed -n '2,3p' | tr '\n' ' ' | cut -c1-230)"

#!/bin/bash
# matrix.sh [tier]: run every seeded change against its property's check (and the extra
# checks listed in meta.json "also_checks"); writes seeded/RESULTS.md.
# Each patch is applied to /repo, the check is run, and the patch is undone straight afterwards.
t=${1:-quick}; pat=${2:-.}
cd /verif
out=seeded/RESULTS.md
[ "$pat" != "." ] && out=seeded/RESULTS.partial.md
{
echo "# Seeded changes vs checks ($t tier)"
echo
echo "Produced by tools/matrix.sh; each row: git -C /repo apply seeded/<id>/patch.diff, ./run.sh <property> $t, git -C /repo checkout -- ."
echo
echo "| seed | check | exit | VIOLATION lines | first violation |"
echo "|---|---|---|---|---|"
} > $out
for d in seeded/*/; do
  s=$(basename $d)
  [ -f $d/patch.diff ] || continue
  echo "$s" | grep -Eq "$pat" || continue
  props="${s%%-*} $(python3 -c "import json;print(' '.join(json.load(open('$d/meta.json')).get('also_checks',[])))")"
  for p in $props; do
    r=$(tools/try_seed.sh $s $p $t)
    rc=$(echo "$r" | sed -n 's/.*exit=\([0-9]*\).*/\1/p'); nv=$(echo "$r" | sed -n 's/.*violations=\([0-9]*\).*/\1/p')
    first=$(echo "$r" | sed 's/^[^:]*:[^:]*:: *//' | tr '|' '/' | cut -c1-200)
    echo "| $s | $p | $rc | $nv | $first |" >> $out
    echo "$r" | cut -c1-200
  done
done
git -C /repo status --short | grep -q . && echo "WARNING: /repo not clean" || echo "/repo clean"

#!/usr/bin/env python3
"""Rewrite the table of §7 of DESIGN.md (between the SEED-TABLE markers) from seeded/*/meta.json and seeded/RESULTS.md."""
import json, glob, os, re
res = {}
for l in open('/verif/seeded/RESULTS.md'):
    f = [x.strip() for x in l.strip().strip('|').split('|')]
    if len(f) >= 5 and re.match(r'C\d\d-m\d+$', f[0]):
        res.setdefault(f[0], []).append((f[1], f[2], f[3], f[4]))
rows = ['| seed | change (files) | reported by (quick tier) | first counterexample |', '|---|---|---|---|']
for d in sorted(glob.glob('/verif/seeded/C*-m*/')):
    sid = os.path.basename(d.rstrip('/'))
    m = json.load(open(d + 'meta.json'))
    r = res.get(sid, [])
    caught = [f"{p}" for (p, rc, nv, first) in r if rc == '1']
    missed = [f"{p}" for (p, rc, nv, first) in r if rc != '1']
    first = next((first for (p, rc, nv, first) in r if rc == '1'), '')
    m2 = re.search(r'program: (.*)$', first)
    ce = (m2.group(1) if m2 else first).strip()[:110].replace('|', '\\|')
    by = ', '.join(caught) if caught else '**not reported**'
    if missed:
        by += ' (not by ' + ', '.join(missed) + ')'
    rows.append(f"| {sid} | {m['title'].replace('|', '/')} ({', '.join(m.get('files', []))}) | {by} | `{ce}` |")
s = open('/verif/DESIGN.md').read()
a, b = s.index('<!-- SEED-TABLE -->'), s.index('<!-- /SEED-TABLE -->')
s = s[:a] + '<!-- SEED-TABLE -->\n' + '\n'.join(rows) + '\n' + s[b:]
open('/verif/DESIGN.md', 'w').write(s)
print(len(rows) - 2, 'seeds')

#!/bin/bash
# import_seed.sh <Cxx> <A|B> <mK>: take a sub-agent's round-2 output from /tmp/seedout/<Cxx>-r2/<A|B>,
# store it as /verif/seeded/<Cxx>-<mK>/ and verify it on a scratch worktree (tools/verify_seed.sh).
p=$1; x=$2; k=$3
src=/tmp/seedout/$p-${ROUND:-r2}/$x; dst=/verif/seeded/$p-$k
[ -f $src/patch.diff ] || { echo "$src: no patch.diff"; exit 2; }
mkdir -p $dst
cp $src/patch.diff $dst/patch.diff
lc=$(echo "$p-$k" | tr 'A-Z-' 'a-z_')
cp $src/demo_test.go $dst/seed_${lc}_test.go
python3 - "$src" "$dst" <<'PY'
import json,sys,re
src,dst=sys.argv[1:3]
m=json.load(open(src+'/meta.json'))
d=m.get('demo_dir','.').strip('/') or '.'
if d.startswith('./'): d=d[2:]
run=re.search(r'-run\s+(\S+)',m['demo_cmd']).group(1)
pkg='.' if d in ('.','') else './'+d
m['demo_cmd']=f"go test -mod=mod -vet=off -count=1 -run {run} {pkg}"
import os
m["round"]=int(os.environ.get("ROUND","r2")[1:])
json.dump(m,open(dst+'/meta.json','w'),indent=1,ensure_ascii=False)
PY
/verif/tools/verify_seed.sh $dst

#!/usr/bin/env python3
"""Regenerates /verif/MANIFEST.json from the table below (one entry per claimed property)."""
import json, subprocess, sys

E1 = "E1 choice-tree explorer (mc/explore) + reference model (mc/ref)"
claimed = {
 "C03": dict(
   text="Bounded exhaustive model checking: every cell of the operator x operand x operand table over a 43-value operand alphabet (both supply modes), all depth-2 nestings over a 10-value sub-alphabet, all range/conditional shapes, each compared with a reference operator model; finite, so enumerated completely in both tiers.",
   note="Trusted: the reference operator model (mc/ref/core.go, written from the statement), Go's float64 arithmetic and math.Mod, encoding/json for string forms. Operands outside the alphabet and nesting deeper than 2 are not covered.",
   technique="explicit enumeration of all operator/operand cases (stateless DFS over the choice tree) vs reference model", design="§5 C03", engine=E1),
 "C08": dict(
   text="Bounded exhaustive model checking of Compile/jparse.Parse/MustCompile totality: every string of 1-3 tokens over a 69-atom lexical alphabet (thorough: 4) with and without separators, every 4-token (thorough: 5) adjacent string over a 32-atom alphabet, all byte strings of length <=2 (thorough: <=3), every single-byte edit of every corpus program, all signature strings of <=4 (thorough: 5) symbols over 19, string/number/regex/back-quoted literal grammars, every corpus program in every child position; each run in a watchdogged worker so that panics, hangs and crashes are observable outcomes.",
   note="Trusted: the CPU-time watchdog (10 CPU-s per case, confirmed in a fresh process), Go's recover for panics. Strings longer than the bounds and multi-edit mutations are not covered. The oracle is totality and result shape only (no reference parser).",
   technique="explicit enumeration of all bounded input strings (stateless DFS) with totality/shape oracle in isolated worker processes", design="§5 C08", engine=E1),
 "C09": dict(
   text="Bounded exhaustive model checking of Eval totality: every built-in x every arity 0..max+1 x a 27-value type-chaotic alphabet (functions as data, nested/empty containers, null, missing) in three call forms, arity 3-4 over a 12-value alphabet, ~80 node shapes (operators, predicates, paths, wildcards, sort, group, chain, transform, partials, typed lambdas, internal field names of function objects) x value tuples, depth-2 compositions f(g(v),w) over all built-in pairs, typed lambdas over 13 types x 4 options x argument lists, every corpus program in every child position; each evaluated on 3 inputs in watchdogged workers.",
   note="Trusted: watchdog and panic capture as for C08. Numbers in the alphabet are small so size-like arguments stay bounded (the statement bounds them); depth-3 compositions are outside the bound. Only 'returns without panic/hang' is checked here; values belong to the other properties.",
   technique="explicit enumeration of bounded type-chaotic programs (stateless DFS) with totality oracle in isolated worker processes", design="§5 C09", engine=E1),
 "C11": dict(
   text="Bounded exhaustive model checking: every string literal of <=3 (thorough: 4) units over a 28-unit alphabet of characters and valid/malformed escapes in both quote styles, the full product of number syntaxes (sign x 8 integer parts x 5 fractions x 10 exponents, bare and nested), and every JSON structure of depth <=2 (thorough: 3) and width <=2 in 3 whitespace policies, each evaluated on 7 inputs and compared with a strict RFC 8259 reference decoder (cross-checked against encoding/json).",
   note="Trusted: the 60-line reference string decoder, strconv.ParseFloat for the nearest double, encoding/json for structures. Texts that JSON itself rejects for reasons other than escapes/surrogates/range are outside the statement.",
   technique="explicit enumeration of all bounded JSON texts (stateless DFS) vs reference JSON decoder", design="§5 C11", engine=E1),
 "C04": dict(
   text="Bounded exhaustive model checking of the parser: every chain of 1-3 (thorough: 4) operators drawn from all 24 infix/postfix operators (every ordered tuple), with operands of 3 kinds, both quote styles, every single parenthesis span and 3 whitespace policies, parsed by the real parser and compared - as canonical trees built from the exported AST - with a precedence-climbing reference parser driven only by the statement's row table (static errors predicted by class); plus complete tables for regex-vs-division after every token kind and for and/or/in as names.",
   note="Trusted: the ~120-line reference parser and the AST-to-canonical-tree conversion (paths flattened to step lists, stacked predicates to filter lists - the two forms the optimiser produces). Unary minus and chains longer than 4 are not covered.",
   technique="explicit enumeration of all operator chains (stateless DFS) vs table-driven reference parser on canonical ASTs", design="§5 C04", engine=E1),
 "C05": dict(
   text="Model checking of histories on the real code: (1) every history of 1-2 Eval calls over a pool of ~250 programs x 4 documents (about 1M histories; thorough adds all length-3 histories over the 46 state-sensitive programs) and the 5-fold repetition/alternation shapes, each step compared with the outcome of the same call run alone as the only call of a fresh process, and the expression's syntax tree, printed form and registry compared with their values after Compile; (2) explicit-state breadth-first search over the same menu on pooled expressions, states identified by a fingerprint of every syntax tree, printed form, registry and built-in function object (hook accessors), invariant checked on every transition.",
   note="Trusted: the solo outcomes (one fresh process per call), the fingerprint accessors behind the verif tag (VerifRoot, VerifRegistry, VerifBaseEnv). Results whose order follows Go map iteration are compared as multisets (sanctioned). Programs outside the pool and histories longer than 3 are not covered. A difference that depends on earlier cases of the same worker process is confirmed by deterministically re-running that worker's case sequence.",
   technique="exhaustive enumeration of bounded Eval histories + explicit-state BFS with state fingerprints over the real implementation", design="§5 C05", engine="E1 + E3 (mc/props/c05.go: history enumeration and fingerprint BFS)"),
 "C06": dict(
   text="Stateless model checking of the implementation under a controlled scheduler: 2-3 real goroutines running real Compile/Eval/Register* calls, one at a time, switching only at hooked points (entry of eval() for every node, reflective calls, accesses to callable name/context, ~> argument lists, registries and the registry mutex, modelled as blocking), with every switch a recorded choice; depth-first enumeration of ALL schedules with 0, 1 and 2 preemptions (thorough: 3, plus a three-thread family) over 270 scenarios chosen to collide (same built-in from different Exprs, one shared Expr, full-argument and bare-function calls, Compile against package-level registration with and without prior registration). Oracle per schedule: every Eval returns its solo outcome, Compile sees exactly the registrations that happened before it (logical clock), no deadlock, and a vector-clock happens-before monitor finds no unordered conflicting access on a hooked location.",
   note="Trusted: the hook points (build tag verif) as the scheduling granularity, the lock model of the registry RWMutex, garbage collection disabled during an execution so that addresses identify objects. Word tearing / reordering below hook granularity and unhooked locations are only visible to the auxiliary free-running pass of the same bodies under go build -race (reported as coverage.aux, sampling, never deciding). More than 3 threads or 2 operations per thread are not explored.",
   technique="preemption-bounded exhaustive schedule exploration (stateless DFS) of the real code + vector-clock race monitor", design="§5 C06", engine="E2 cooperative scheduler (mc/sched) driven by E1's chooser"),
 "C07": dict(
   text="Bounded exhaustive model checking: ~80 program shapes (every array/object built-in and node type that handles containers, chains, partials, lambdas) x 10 operands, alone and composed to depth 2, on 64 freshly built documents (nulls, empty containers, duplicates, nested arrays, two slices over one backing array, one map reachable through two members, array at the top) each with a registered variable that is separate from / part of the document: after every evaluation, successful or failing, the caller's document and the variable must be deep-equal to their snapshots. Transforms: the full product 9 patterns x 9 updates x 8 deletes x 5 application forms x all documents compared with a reference transform (deep copy, update exactly the selected objects, delete names, error classes), plus patterns that escape the copy ($$, variables) under the frame condition.",
   note="Trusted: reflect.DeepEqual against an independent deep copy taken before Eval; the reference transform (mc/ref/ext2.go). Struct-typed inputs and documents deeper than the generated ones are not covered; an in-place write beyond a slice's visible length is seen only through the aliased view the generator provides.",
   technique="explicit enumeration of bounded programs x documents (stateless DFS) with frame-condition oracle and reference transform", design="§5 C07", engine=E1),
 "C10": dict(
   text="Bounded exhaustive model checking: every built-in x arity 0..2 (thorough: 3) x the 27-value type-chaotic alphabet, ~100 node shapes x value tuples, every corpus program in 10 result positions (bare, in an array, in an object, through a lambda, through $map, indexed, chained) on 4 documents, 26 numeric shapes x all pairs of 16 edge numbers (overflowing powers, sums, products) - each checked by a type walk of the returned Go value (only JSON kinds and function values, finite numbers), json.Marshal, ErrUndefined shape, and a differential oracle EvalBytes(encode(input)) vs Eval(decode(encode(input))); EvalBytes input validation on all byte strings of length <=3 (thorough: 4) over 18 bytes and on 11 documents x 16 prefixes x 16 suffixes x truncations.",
   note="Trusted: encoding/json as the definition of valid JSON input and of the encoding. Results whose order follows Go map iteration are compared as multisets. That ErrUndefined is reported exactly for 'no value' is decided against the reference model in C01-C03, C12-C15; here only totality of the mapping and its shape.",
   technique="explicit enumeration of bounded programs and input byte strings (stateless DFS) with type-walk and Eval/EvalBytes differential oracles", design="§5 C10", engine=E1),
 "C16": dict(
   text="Bounded exhaustive model checking: all strings of length 0..3 (thorough: 0..4) over a 10-unit alphabet mixing ASCII, 2-, 3- and 4-byte characters, whitespace and separator characters, crossed with every start/length/width in -8..8, pad strings of 0..3 units and separators of 0..2 units, for $length, $substring (2/3 arguments), $pad (2/3), $substringBefore/After, $trim, $uppercase/$lowercase, $contains, $split (2/3), $join (1/2), $replace (3/4), base64 and URL codecs, each in direct and context-defaulting form, compared with []rune reference definitions; the inverse laws of the statement are evaluated as JSONata equalities on every enumerated string.",
   note="Trusted: the []rune reference functions in mc/props/c16.go, unicode.ToUpper/ToLower, encoding/base64 and net/url as independent oracles. Fractional parameters are checked for totality only (statement silent on the cast). Characters outside the alphabet are not covered.",
   technique="explicit enumeration of all bounded strings x parameters (stateless DFS) vs code-point reference definitions and in-language laws", design="§5 C16", engine=E1),
 "C17": dict(
   text="Bounded exhaustive model checking: every pattern of 1-2 atoms (thorough: 3) from a 17-atom grammar (literals, classes, capturing/nested/optional groups, quantifiers incl. lazy, anchors, escaped slash, empty group) with and without a top-level alternation x 5 flag sets x all subjects of length <=2 (thorough: <=4) over {a,b,A,/,newline} plus 5 longer subjects x $match, $contains, $split, $replace (default template / replacement function), literal-as-function and the full next() chain x limits {absent,0,1,2,4,-1}; all templates of <=3 (thorough: 4) units over {x,$0,$1,$2,$12,$$,lone $,$a,$3} on 8 patterns with 0-3 groups; invalid/empty patterns must fail to compile. Oracle: Go's regexp called directly by the harness (FindAllStringSubmatchIndex) and a reference template expander written from the statement.",
   note="Trusted: Go regexp as the engine the statement refers to (what is verified is literal scanning, flag translation, match-object plumbing, byte offsets on an ASCII subject alphabet, limits, split/replace reconstruction, template expansion). Subjects longer than the bound and non-ASCII offsets are not covered.",
   technique="explicit enumeration of patterns x flags x subjects x functions (stateless DFS) vs direct calls of the regexp engine", design="§5 C17", engine=E1),
 "C18": dict(
   text="Bounded exhaustive model checking: $string/$number round trip on all decimals m x 10^e (|m|<=999, thorough 9999; e in -12..21), powers of two 2^-60..2^70, specials, each with both neighbouring doubles (shortest-digits and read-back check); $number on ALL strings of length <=5 (thorough: 6) over a 10-character number-like alphabet against a reference recogniser + strconv; $round on k x 10^-d (|k|<=300, thorough 2000; d in -4..4, i.e. every exact tie at every digit position) and both neighbours x precisions -6..12 against exact big.Rat half-even rounding of the shortest decimal; floor/ceil/abs/sqrt/power grids; $formatBase over integers, halves, 2^53 and 2^63 edges x 20 bases incl. fractional and out-of-range; $formatNumber on 12 integer parts x 7 fraction parts x 5 modes x 4 affixes x 3 second sub-pictures x 22 values, each with 0, 1 (thorough: 2) decimal-format option deviations, checked by a read-back checker (prefix/suffix, minus or negative sub-picture, grouping separator positions regular and irregular, mandatory digits, value = x rounded to the picture's fraction digits, percent/per-mille scaling, mantissa x 10^exponent); and every single-edit mutation (delete/duplicate/insert over 10 symbols) of 630 pictures against a reference validity predicate for the decimal-format grammar. Every case runs under the CPU watchdog (termination).",
   note="Trusted: strconv and math/big as exact oracles; the read-back checker and validity predicate in mc/props/c18fmt.go (written from the statement / XPath 3.1 rules). Ties in $formatNumber may round either way ('rounded'); 'reads back' is compared at double precision. Doubles outside the grids, pictures with more than one edit and longer strings are not covered.",
   technique="explicit enumeration of number grids, strings and pictures (stateless DFS) vs exact big-rational oracles and a read-back checker", design="§5 C18", engine=E1),
 "C19": dict(
   text="Bounded exhaustive model checking on the finite day line: every day of 18 boundary years and of every 11th year 1000..9999 (thorough: EVERY day 1000-01-01..9999-12-31, 3.29M days) x 3 times of day x 3 offsets, rendered through a 30-component composite picture (numeric, zero-padded, ordinal, upper/lower/title names, 3-letter abbreviations, 12-hour clock, am/pm, ISO week, day of year, [Z]/[z] forms) and compared with an independent integer civil calendar (days-from-civil arithmetic, Thursday rule); 21 boundary days x 24 hours x 2 minutes x all 113 quarter-hour offsets -1400..+1400 incl. the default ISO 8601 picture; the inverse law $toMillis($fromMillis(ms, pic, tz)) = ms through the default picture and four explicit pictures on the same days; all strings of <=4 (thorough: 5) units over malformed picture and offset alphabets; unparseable texts; and the one-clock relation ($millis/$now equal within one Eval, bracketed by the caller's clock) on 300 (thorough: 2000) evaluations in 3 forms.",
   note="Trusted: the 40-line civil-calendar arithmetic in mc/props/c19.go (self-checked against Go's time package at start-up). [F1] numbering, [w] and the default width of [f] are not compared (statement silent). Times of day other than the three sampled (plus all hours on boundary days) are not covered. The clock bracket discards samples where wall and monotonic elapsed time disagree by more than 1 ms.",
   technique="exhaustive sweep of the day line x offsets x pictures (stateless DFS) vs independent civil-calendar arithmetic and inverse laws", design="§5 C19", engine=E1),
 "C13": dict(
   text="Bounded exhaustive model checking: all arrays of 0..3 (thorough: 4) objects {id,k,j} with k, j over {missing,1,2,3} or {missing,a,b,B} x all sort specifications of 1-2 terms (thorough: 3) over 6 key expressions (member, second member, $-relative, sum, negation, constant) x {default,<,>}; ALL 2^n two-valued key patterns for n = 13, 14 (thorough: ..18) - every tie pattern beyond the length where an unstable library sort is still accidentally stable - sorted ascending, descending, with a constant second term and through $sort with a comparator; one foreign key value (boolean, array, object, string among numbers...) at every position for the error clause; $sort on all number/string arrays of length <=5 (6) over 3 values and with 5 comparators. Oracle on the implementation's own result: id multiset preserved, adjacent pairs ordered by the key tuple with absent keys last and per-term direction, equal tuples in input order; plus equality with a reference stable insertion sort and the predicted error class.",
   note="Trusted: the reference sort (mc/ref/sort.go) and the direct checks in mc/props/c13.go. Arrays longer than 18 items and key domains larger than 4 values are outside the bound ('random arrays up to 200 items' of the quantifier is not claimed).",
   technique="explicit enumeration of all small keyed arrays x sort specifications and of all tie patterns of length 13-18 (stateless DFS) with permutation/order/stability oracles", design="§5 C13", engine=E1),
 "C15": dict(
   text="Bounded exhaustive model checking: all arrays of length 0..4 (thorough: 5) over a kind-mixing domain (1, \"1\", true, [1], {a:1}, and from length 4 also 2, {a:\"1\"}, [[1]], \"a\"), scalars in array position and empty arrays (missing argument), crossed with $map/$filter/$single x 12 callbacks (lambdas of arity 0..4 exposing value/index/array, a callback returning nothing, built-ins, a partial and a chain as callbacks), $reduce (non-commutative fold, with/without seed, wrong-arity functions), $append/$reverse/$zip (2 and 3 arguments, unequal lengths, missing arguments)/$count over pairs of arrays, $distinct (kind-sensitive, first occurrence), $shuffle (permutation), aggregates over all number arrays over {0,1,-2,0.5,1e308} incl. overflow, one foreign member at every position, scalars and the literal empty array, and compositions that use the operand again after the function was applied - each compared with reference definitions written from the statement.",
   note="Trusted: the reference definitions in mc/props/c15.go and ref.DeepEqual/Truthy/StringOf. Arrays longer than 5 and values outside the domain are not covered; for $distinct of a scalar both the scalar and the one-member array are accepted (statement: 'counts as a one-member array').",
   technique="explicit enumeration of all small arrays x call shapes x callbacks (stateless DFS) vs reference definitions", design="§5 C15", engine=E1),
}
pending_reason = "check not built yet in this session (planned, see DESIGN.md §5)"

props = [json.loads(l) for l in open('/verif/properties.jsonl')]
ids = [p['id'] for p in props]
checks = []
for i in ids:
    if i in claimed:
        c = claimed[i]
        checks.append({
          "property_id": i,
          "quick_cmd": f"./run.sh {i} quick",
          "thorough_cmd": f"./run.sh {i} thorough",
          "evidence_file": f"/verif/evidence/{i}.json",
          "replay_cmd_template": f"./run.sh {i} replay {{path}}",
          "engine": c["engine"],
          "level_claimed": {"category": "model_checking", "text": c["text"], "design_ref": c["design"]},
          "level_note": c["note"],
          "technique": c["technique"],
        })
hooks_commits = []
try:
    out = subprocess.run(["git","-C","/repo","log","--format=%H %s"],capture_output=True,text=True).stdout
    for l in out.splitlines():
        h,s = l.split(" ",1)
        if s.startswith("verif hooks:"):
            hooks_commits.append(h)
except Exception:
    pass
m = {
 "version": 1,
 "setup_cmd": "./setup.sh",
 "hooks": {
   "guard": "verif",
   "enable": "go build -tags verif (run.sh builds mc/cmd/check with the tag; /repo is pulled in through a replace directive)",
   "baseline_off_cmd": "cd /repo && go test -mod=mod -json -vet=off -count=1 ./...",
   "source_commits": hooks_commits,
   "add_only": True,
 },
 "engines": [
   {"name":"E1","path":"mc/explore","serves_properties":[i for i in ids if i in claimed and claimed[i]["engine"].startswith("E1")],"kind_free_text":"stateless exhaustive DFS over choice trees (case generators), sharded over 16 worker subprocesses with CPU-time watchdog, crash recovery and replay"},
   {"name":"E2","path":"mc/sched","serves_properties":[i for i in ids if i in claimed and "E2" in claimed[i]["engine"]],"kind_free_text":"cooperative baton scheduler over hooked points of the real code, preemption-bounded DFS, vector-clock race monitor"},
   {"name":"E3","path":"mc/hist","serves_properties":[i for i in ids if i in claimed and "E3" in claimed[i]["engine"]],"kind_free_text":"explicit-state BFS over API histories with state fingerprints, replay-from-initial successors"},
 ],
 "checks": checks,
 "not_applicable": [{"property_id": i, "reason": pending_reason} for i in ids if i not in claimed],
 "notes": "All checks: exit 0 = held on everything explored (KNOWN-FINDING lines allowed), 1 = VIOLATION line(s), 2 = harness error. Known findings: /verif/known_findings.txt. Seeded property-breaking changes: /verif/seeded/.",
}
json.dump(m, open('/verif/MANIFEST.json','w'), indent=1)
print("claimed:", [c["property_id"] for c in checks])

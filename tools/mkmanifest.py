#!/usr/bin/env python3
"""Regenerates /verif/MANIFEST.json from the table below (one entry per claimed property)."""
import json, subprocess, sys

E1 = "E1 choice-tree explorer (mc/explore) + reference model (mc/ref)"
claimed = {
 "C03": dict(
   text="Bounded exhaustive model checking: every cell of the operator x operand x operand table over a 43-value operand alphabet (both supply modes), all depth-2 nestings over a 10-value sub-alphabet, all range/conditional shapes, each compared with a reference operator model; finite, so enumerated completely in both tiers.",
   note="Trusted: the reference operator model (mc/ref/core.go, written from the statement), Go's float64 arithmetic and math.Mod, encoding/json for string forms. Operands outside the alphabet and nesting deeper than 2 are not covered.",
   technique="explicit enumeration of all operator/operand cases (stateless DFS over the choice tree) vs reference model", design="§5 C03", engine=E1),
}
pending_reason = "check not built yet in this session (planned, see DESIGN.md §5)"

props = [json.loads(l) for l in open('/verif/properties.jsonl')]
ids = [p['id'] for p in props]
checks = []
for i in ids:
    if i in claimed:
        c = claimed[i]
        checks.append({
          "property_id": i,
          "quick_cmd": f"./run.sh {i} quick",
          "thorough_cmd": f"./run.sh {i} thorough",
          "evidence_file": f"/verif/evidence/{i}.json",
          "replay_cmd_template": f"./run.sh {i} replay {{path}}",
          "engine": c["engine"],
          "level_claimed": {"category": "model_checking", "text": c["text"], "design_ref": c["design"]},
          "level_note": c["note"],
          "technique": c["technique"],
        })
hooks_commits = []
try:
    out = subprocess.run(["git","-C","/repo","log","--format=%H %s"],capture_output=True,text=True).stdout
    for l in out.splitlines():
        h,s = l.split(" ",1)
        if s.startswith("verif hooks:"):
            hooks_commits.append(h)
except Exception:
    pass
m = {
 "version": 1,
 "setup_cmd": "./setup.sh",
 "hooks": {
   "guard": "verif",
   "enable": "go build -tags verif (run.sh builds mc/cmd/check with the tag; /repo is pulled in through a replace directive)",
   "baseline_off_cmd": "cd /repo && go test -mod=mod -json -vet=off -count=1 ./...",
   "source_commits": hooks_commits,
   "add_only": True,
 },
 "engines": [
   {"name":"E1","path":"mc/explore","serves_properties":[i for i in ids if i in claimed and claimed[i]["engine"].startswith("E1")],"kind_free_text":"stateless exhaustive DFS over choice trees (case generators), sharded over 16 worker subprocesses with CPU-time watchdog, crash recovery and replay"},
   {"name":"E2","path":"mc/sched","serves_properties":[i for i in ids if i in claimed and "E2" in claimed[i]["engine"]],"kind_free_text":"cooperative baton scheduler over hooked points of the real code, preemption-bounded DFS, vector-clock race monitor"},
   {"name":"E3","path":"mc/hist","serves_properties":[i for i in ids if i in claimed and "E3" in claimed[i]["engine"]],"kind_free_text":"explicit-state BFS over API histories with state fingerprints, replay-from-initial successors"},
 ],
 "checks": checks,
 "not_applicable": [{"property_id": i, "reason": pending_reason} for i in ids if i not in claimed],
 "notes": "All checks: exit 0 = held on everything explored (KNOWN-FINDING lines allowed), 1 = VIOLATION line(s), 2 = harness error. Known findings: /verif/known_findings.txt. Seeded property-breaking changes: /verif/seeded/.",
}
json.dump(m, open('/verif/MANIFEST.json','w'), indent=1)
print("claimed:", [c["property_id"] for c in checks])

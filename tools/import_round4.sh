#!/bin/bash
# import_round4.sh <Cxx>...: import the A and B outputs of the round-4 sub-agents (tools/import_seed.sh verifies each on a
# scratch worktree), then run the property's quick check against each (tools/try_seed.sh).
cd /verif
for p in "$@"; do
  for x in A B; do
    [ -f /tmp/seedout/$p-r4/$x/patch.diff ] || { echo "$p $x: missing"; continue; }
    last=$(ls -d seeded/$p-m* 2>/dev/null | sed 's/.*-m//' | sort -n | tail -1)
    k=m$(( ${last:-0} + 1 ))
    ROUND=r4 tools/import_seed.sh $p $x $k
    tools/try_seed.sh $p-$k
  done
done

#!/bin/sh
# usage: run.sh <property id> <quick|thorough>          run the check of one property
#        run.sh <property id> replay <replay file>      re-run one recorded violation
# Rebuilds the check binary from /repo's current working tree (build tag verif) on every call.
# VERIF_ROOT (default: the directory of this script) and VERIF_REPO (default /repo) allow a background
# sweep from a snapshot (vp run --with-repo); the registered commands use the defaults.
root=${VERIF_ROOT:-$(cd "$(dirname "$0")" && pwd)}
cd "$root" || exit 2
. ./env.sh
export VERIF_ROOT="$root"
mkdir -p .bin .cache .work
if [ -n "$VERIF_REPO" ] && [ "$root" != "/verif" ]; then
  ( cd mc && go mod edit -replace github.com/blues/jsonata-go="$VERIF_REPO" )
fi
tmp=.bin/check.$$
( cd mc && cp -f ${VERIF_REPO:-/repo}/go.sum go.sum 2>/dev/null; go build -tags verif -o ../$tmp ./cmd/check ) || { echo "HARNESS-ERROR build failed"; rm -f $tmp; exit 2; }
mv -f $tmp .bin/check-$1 || exit 2
if [ "$1" = "C06" ] && [ "$2" != "replay" ]; then
  # auxiliary free-running pass: the same harness bodies built with the race detector
  ( cd mc && go build -race -tags verif -o ../.bin/check-race.$$ ./cmd/check ) && mv -f .bin/check-race.$$ .bin/check-race || { echo "HARNESS-ERROR race build failed"; exit 2; }
fi
case "$2" in
  replay) exec .bin/check-$1 -root "$root" -replayfile "$3" ;;
  quick|thorough) exec .bin/check-$1 -root "$root" -prop "$1" -tier "$2" ;;
  *) echo "usage: run.sh <id> quick|thorough|replay [file]"; exit 2 ;;
esac

#!/bin/sh
# Builds the framework offline from files on disk and warms the private build cache.
cd /verif || exit 2
. ./env.sh
mkdir -p .bin .cache .work evidence
( cd mc && cp -f /repo/go.sum go.sum 2>/dev/null; go build -tags verif -o ../.bin/check ./cmd/check && go build -o ../.bin/probe ./cmd/probe ) || exit 2
( cd mc && go build -race -tags verif -o ../.bin/check-race ./cmd/check ) || exit 2
( cd /repo && go build ./... ) || exit 2
echo setup ok

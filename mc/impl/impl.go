// Package impl wraps the implementation under test: it runs Compile/Eval
// through the exported API only and classifies what came back.
package impl

import (
	"encoding/json"
	"fmt"
	"math"
	"reflect"
	"sort"
	"strconv"
	"strings"

	jsonata "github.com/blues/jsonata-go"
	"github.com/blues/jsonata-go/jparse"
	"github.com/blues/jsonata-go/jtypes"
)

// Kind of outcome.
type Kind uint8

// Outcome kinds.
const (
	Value Kind = iota
	Undefined
	Error
	CompileError
)

// Undef is the sentinel for 'no value' inside normalised values (missing
// members never appear inside arrays or objects; it is used at top level).
type Undef struct{}

// Fn stands for any function value inside a normalised result.
type Fn struct{}

// Alien marks a Go value of a type that is not JSON-representable.
type Alien struct{ Type string }

// Outcome is a classified result.
type Outcome struct {
	Kind  Kind
	Val   interface{} // normalised value (Kind==Value)
	Raw   interface{} // value as returned
	Class string      // error class (Kind==Error/CompileError)
	Err   error
}

func (o Outcome) String() string {
	switch o.Kind {
	case Value:
		return "value " + Render(o.Val)
	case Undefined:
		return "no value"
	case Error:
		return "error[" + o.Class + "] " + errString(o.Err)
	default:
		return "compile-error[" + o.Class + "] " + errString(o.Err)
	}
}

// Short is the outcome without the error text.
func (o Outcome) Short() string {
	switch o.Kind {
	case Value:
		return "value " + Render(o.Val)
	case Undefined:
		return "no value"
	case Error:
		return "error[" + o.Class + "]"
	default:
		return "compile-error[" + o.Class + "]"
	}
}

func errString(err error) string {
	if err == nil {
		return ""
	}
	s := err.Error()
	if len(s) > 160 {
		s = s[:160]
	}
	return s
}

// ErrClass maps an error to its class: the statement-level kind, never the message.
func ErrClass(err error) string {
	switch e := err.(type) {
	case *jsonata.EvalError:
		return "eval:" + evalErrName(e.Type)
	case jsonata.EvalError:
		return "eval:" + evalErrName(e.Type)
	case *jsonata.ArgCountError:
		return "argcount"
	case *jsonata.ArgTypeError:
		return "argtype:" + strconv.Itoa(e.Which)
	case *jparse.Error:
		return "parse:" + strconv.Itoa(int(e.Type))
	default:
		return "other"
	}
}

var evalErrNames = map[jsonata.ErrType]string{
	jsonata.ErrNonIntegerLHS: "NonIntegerLHS", jsonata.ErrNonIntegerRHS: "NonIntegerRHS",
	jsonata.ErrNonNumberLHS: "NonNumberLHS", jsonata.ErrNonNumberRHS: "NonNumberRHS",
	jsonata.ErrNonComparableLHS: "NonComparableLHS", jsonata.ErrNonComparableRHS: "NonComparableRHS",
	jsonata.ErrTypeMismatch: "TypeMismatch", jsonata.ErrNonCallable: "NonCallable",
	jsonata.ErrNonCallableApply: "NonCallableApply", jsonata.ErrNonCallablePartial: "NonCallablePartial",
	jsonata.ErrNumberInf: "NumberInf", jsonata.ErrNumberNaN: "NumberNaN", jsonata.ErrMaxRangeItems: "MaxRangeItems",
	jsonata.ErrIllegalKey: "IllegalKey", jsonata.ErrDuplicateKey: "DuplicateKey", jsonata.ErrClone: "Clone",
	jsonata.ErrIllegalUpdate: "IllegalUpdate", jsonata.ErrIllegalDelete: "IllegalDelete",
	jsonata.ErrNonSortable: "NonSortable", jsonata.ErrSortMismatch: "SortMismatch",
}

func evalErrName(t jsonata.ErrType) string {
	if s, ok := evalErrNames[t]; ok {
		return s
	}
	return "unknown" + strconv.Itoa(int(t))
}

// Run compiles and evaluates program on input.
func Run(program string, input interface{}) Outcome {
	e, err := jsonata.Compile(program)
	if err != nil {
		return Outcome{Kind: CompileError, Class: ErrClass(err), Err: err}
	}
	return EvalExpr(e, Roomy(input))
}

// Roomy deep-copies a JSON-like value so that every array has spare capacity
// behind its last member, as arrays decoded by encoding/json usually have
// (it grows them by append). An implementation that extends an input array in
// place then corrupts what a second use of the same array sees, instead of
// being saved by an exactly-sized slice.
func Roomy(v interface{}) interface{} {
	switch x := v.(type) {
	case []interface{}:
		out := make([]interface{}, len(x), len(x)+2)
		for i, e := range x {
			out[i] = Roomy(e)
		}
		return out
	case map[string]interface{}:
		out := make(map[string]interface{}, len(x))
		for k, e := range x {
			out[k] = Roomy(e)
		}
		return out
	}
	return v
}

// EvalExpr evaluates a compiled expression and classifies the outcome.
func EvalExpr(e *jsonata.Expr, input interface{}) Outcome {
	v, err := e.Eval(input)
	if err != nil {
		if err == jsonata.ErrUndefined {
			return Outcome{Kind: Undefined, Err: err}
		}
		return Outcome{Kind: Error, Class: ErrClass(err), Err: err}
	}
	return Outcome{Kind: Value, Val: Normalize(v), Raw: v}
}

// Normalize maps a Go result to the canonical JSON-like form: nil, bool,
// float64, string, []interface{}, map[string]interface{}, Fn{} for callables,
// Alien{} for anything that is not JSON-representable.
func Normalize(v interface{}) interface{} {
	switch x := v.(type) {
	case nil:
		return nil
	case bool, string:
		return x
	case float64:
		return x
	case int:
		return float64(x)
	case int64:
		return float64(x)
	case []interface{}:
		out := make([]interface{}, len(x))
		for i, e := range x {
			out[i] = Normalize(e)
		}
		return out
	case map[string]interface{}:
		out := make(map[string]interface{}, len(x))
		for k, e := range x {
			out[k] = Normalize(e)
		}
		return out
	case jtypes.Callable:
		return Fn{}
	}
	rv := reflect.ValueOf(v)
	return normalizeReflect(rv)
}

func normalizeReflect(rv reflect.Value) interface{} {
	switch rv.Kind() {
	case reflect.Int, reflect.Int8, reflect.Int16, reflect.Int32, reflect.Int64:
		return float64(rv.Int())
	case reflect.Uint, reflect.Uint8, reflect.Uint16, reflect.Uint32, reflect.Uint64:
		return float64(rv.Uint())
	case reflect.Float32, reflect.Float64:
		return rv.Float()
	case reflect.Bool:
		return rv.Bool()
	case reflect.String:
		return rv.String()
	case reflect.Slice, reflect.Array:
		out := make([]interface{}, rv.Len())
		for i := range out {
			out[i] = Normalize(rv.Index(i).Interface())
		}
		return out
	case reflect.Map:
		if rv.Type().Key().Kind() != reflect.String {
			return Alien{rv.Type().String()}
		}
		out := make(map[string]interface{}, rv.Len())
		for _, k := range rv.MapKeys() {
			out[k.String()] = Normalize(rv.MapIndex(k).Interface())
		}
		return out
	case reflect.Ptr, reflect.Interface:
		if rv.IsNil() {
			return nil
		}
		if rv.Type().Implements(jtypes.TypeCallable) {
			return Fn{}
		}
		return Alien{rv.Type().String()}
	}
	return Alien{rv.Type().String()}
}

// HasAlien reports whether a normalised value contains a non-JSON type or a
// non-finite number, and names it.
func HasAlien(v interface{}) (string, bool) {
	switch x := v.(type) {
	case Alien:
		return x.Type, true
	case float64:
		if math.IsInf(x, 0) || math.IsNaN(x) {
			return "non-finite number", true
		}
	case []interface{}:
		for _, e := range x {
			if s, ok := HasAlien(e); ok {
				return s, true
			}
		}
	case map[string]interface{}:
		for _, e := range x {
			if s, ok := HasAlien(e); ok {
				return s, true
			}
		}
	}
	return "", false
}

// Equal is deep equality on normalised values; functions are equal to functions.
func Equal(a, b interface{}) bool {
	switch x := a.(type) {
	case nil:
		return b == nil
	case bool:
		y, ok := b.(bool)
		return ok && x == y
	case float64:
		y, ok := b.(float64)
		return ok && (x == y || (math.IsNaN(x) && math.IsNaN(y)))
	case string:
		y, ok := b.(string)
		return ok && x == y
	case Fn:
		_, ok := b.(Fn)
		return ok
	case Undef:
		_, ok := b.(Undef)
		return ok
	case []interface{}:
		y, ok := b.([]interface{})
		if !ok || len(x) != len(y) {
			return false
		}
		for i := range x {
			if !Equal(x[i], y[i]) {
				return false
			}
		}
		return true
	case map[string]interface{}:
		y, ok := b.(map[string]interface{})
		if !ok || len(x) != len(y) {
			return false
		}
		for k, v := range x {
			w, ok := y[k]
			if !ok || !Equal(v, w) {
				return false
			}
		}
		return true
	case Alien:
		y, ok := b.(Alien)
		return ok && x == y
	}
	return false
}

// Render prints a normalised value deterministically (object keys sorted).
func Render(v interface{}) string {
	var sb strings.Builder
	render(&sb, v)
	return sb.String()
}

func render(sb *strings.Builder, v interface{}) {
	switch x := v.(type) {
	case nil:
		sb.WriteString("null")
	case bool:
		sb.WriteString(strconv.FormatBool(x))
	case float64:
		if x == 0 && math.Signbit(x) {
			sb.WriteString("-0")
		} else {
			sb.WriteString(strconv.FormatFloat(x, 'g', -1, 64))
		}
	case string:
		b, _ := json.Marshal(x)
		sb.Write(b)
	case Fn:
		sb.WriteString("<function>")
	case Undef:
		sb.WriteString("<undefined>")
	case Alien:
		sb.WriteString("<go:" + x.Type + ">")
	case []interface{}:
		sb.WriteByte('[')
		for i, e := range x {
			if i > 0 {
				sb.WriteByte(',')
			}
			render(sb, e)
		}
		sb.WriteByte(']')
	case map[string]interface{}:
		keys := make([]string, 0, len(x))
		for k := range x {
			keys = append(keys, k)
		}
		sort.Strings(keys)
		sb.WriteByte('{')
		for i, k := range keys {
			if i > 0 {
				sb.WriteByte(',')
			}
			b, _ := json.Marshal(k)
			sb.Write(b)
			sb.WriteByte(':')
			render(sb, x[k])
		}
		sb.WriteByte('}')
	default:
		fmt.Fprintf(sb, "<%T>", v)
	}
}

// Clone deep-copies a JSON-like Go value (maps, slices, scalars).
func Clone(v interface{}) interface{} {
	switch x := v.(type) {
	case []interface{}:
		out := make([]interface{}, len(x))
		for i, e := range x {
			out[i] = Clone(e)
		}
		return out
	case map[string]interface{}:
		out := make(map[string]interface{}, len(x))
		for k, e := range x {
			out[k] = Clone(e)
		}
		return out
	}
	return v
}

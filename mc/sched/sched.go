// Package sched is engine E2: a cooperative scheduler that runs real goroutines
// executing real library code one at a time (baton passing), switching only at
// the hooked points of /repo, with every switch decided by a Chooser so that a
// depth-first search enumerates all interleavings up to a preemption bound.
// A vector-clock monitor fed by the hooked accesses and by the real
// synchronisation only (mutex acquire/release, thread start; baton hand-offs
// are deliberately not happens-before edges) reports data races.
package sched

import (
	"fmt"
	"sort"
	"unsafe"

	"github.com/blues/jsonata-go/verifhook"

	"verif/mc/explore"
)

type thr struct {
	id       int
	wake     chan struct{}
	body     func()
	started  bool
	finished bool
	wantLock uintptr
	wantKind uint8
	vc       []int
	points   int
}

type lockState struct {
	writer  int // -1 none
	readers map[int]int
	relW    []int // clock of the last write release
	relR    []int // join of read releases
}

type access struct {
	thread int
	clock  int
}

type locState struct {
	lastW  access
	hasW   bool
	reads  map[int]int // thread -> clock of last read
	wPoint int
}

// Race is one detected unordered conflicting pair.
type Race struct {
	Loc    uintptr
	Kind   string // write/write, write/read, read/write
	T1, T2 int
}

// Result of one execution.
type Result struct {
	Races      []Race
	Deadlock   bool
	Horizon    bool
	Steps      int
	Preempts   int
	Schedule   []int // thread id run at each step
	PointsSeen int
}

// Sched is one controlled execution.
type Sched struct {
	c        *explore.Chooser
	threads  []*thr
	cur      int
	bound    int
	preempts int
	steps    int
	horizon  int
	locks    map[uintptr]*lockState
	locs     map[uintptr]*locState
	done     chan struct{}
	res      Result
	finished int
	clock    int // logical time: number of points passed so far
}

var active *Sched

func init() {
	verifhook.Sink = sink
}

// Now is the logical time (points passed so far) of the running execution.
func Now() int {
	if active == nil {
		return 0
	}
	return active.clock
}

func join(a, b []int) {
	for i := range a {
		if b != nil && b[i] > a[i] {
			a[i] = b[i]
		}
	}
}

// Run executes the bodies as threads under the scheduler. Choices are drawn
// from c; bound is the preemption bound (negative: unbounded).
func Run(c *explore.Chooser, bound, horizon int, bodies []func()) Result {
	s := &Sched{c: c, bound: bound, horizon: horizon, locks: map[uintptr]*lockState{}, locs: map[uintptr]*locState{}, done: make(chan struct{})}
	n := len(bodies)
	for i, b := range bodies {
		t := &thr{id: i, wake: make(chan struct{}, 1), body: b, vc: make([]int, n)}
		t.vc[i] = 1
		s.threads = append(s.threads, t)
	}
	active = s
	for _, t := range s.threads {
		t := t
		go func() {
			<-t.wake
			func() {
				defer func() {
					if r := recover(); r != nil {
						threadPanic(t.id, r)
					}
				}()
				t.body()
			}()
			s.finish(t)
		}()
	}
	first := s.choose(s.enabled(-1), -1)
	if first >= 0 {
		s.cur = first
		s.threads[first].started = true
		s.threads[first].wake <- struct{}{}
		<-s.done
	}
	active = nil
	s.res.Steps = s.steps
	s.res.Preempts = s.preempts
	return s.res
}

// PanicHook receives panics raised inside thread bodies.
var PanicHook func(thread int, r interface{})

func threadPanic(id int, r interface{}) {
	if PanicHook != nil {
		PanicHook(id, r)
	}
}

func (s *Sched) lockAvailable(t *thr) bool {
	l := s.locks[t.wantLock]
	if l == nil {
		return true
	}
	switch t.wantKind {
	case verifhook.KLock:
		return l.writer < 0 && len(l.readers) == 0
	default:
		return l.writer < 0
	}
}

// enabled lists the runnable threads in canonical order: the running thread
// first if still enabled, then ascending ids.
func (s *Sched) enabled(cur int) []int {
	var out []int
	if cur >= 0 {
		t := s.threads[cur]
		if !t.finished && (t.wantLock == 0 || s.lockAvailable(t)) {
			out = append(out, cur)
		}
	}
	for _, t := range s.threads {
		if t.id == cur || t.finished {
			continue
		}
		if t.wantLock != 0 && !s.lockAvailable(t) {
			continue
		}
		out = append(out, t.id)
	}
	return out
}

// choose picks the next thread. Switching away from a running thread that is
// still enabled costs one preemption.
func (s *Sched) choose(en []int, cur int) int {
	if len(en) == 0 {
		return -1
	}
	curEnabled := cur >= 0 && en[0] == cur
	opts := en
	if curEnabled && s.bound >= 0 && s.preempts >= s.bound {
		opts = en[:1]
	}
	k := 0
	if len(opts) > 1 {
		k = s.c.Choose(len(opts))
	}
	if curEnabled && k > 0 {
		s.preempts++
	}
	return opts[k]
}

func (s *Sched) lock(loc uintptr) *lockState {
	l := s.locks[loc]
	if l == nil {
		l = &lockState{writer: -1, readers: map[int]int{}}
		s.locks[loc] = l
	}
	return l
}

func (s *Sched) locOf(loc uintptr) *locState {
	l := s.locs[loc]
	if l == nil {
		l = &locState{reads: map[int]int{}}
		s.locs[loc] = l
	}
	return l
}

func (s *Sched) access(t *thr, loc uintptr, write bool) {
	l := s.locOf(loc)
	if l.hasW && l.lastW.thread != t.id && l.lastW.clock > t.vc[l.lastW.thread] {
		k := "write/read"
		if write {
			k = "write/write"
		}
		s.res.Races = append(s.res.Races, Race{loc, k, l.lastW.thread, t.id})
	}
	if write {
		for u, ck := range l.reads {
			if u != t.id && ck > t.vc[u] {
				s.res.Races = append(s.res.Races, Race{loc, "read/write", u, t.id})
			}
		}
		l.lastW, l.hasW = access{t.id, t.vc[t.id]}, true
		l.reads = map[int]int{}
	} else {
		l.reads[t.id] = t.vc[t.id]
	}
}

func sink(kind uint8, loc unsafe.Pointer) {
	s := active
	if s == nil {
		return
	}
	t := s.threads[s.cur]
	s.steps++
	s.clock++
	t.points++
	s.res.PointsSeen++
	if s.steps > s.horizon {
		explore.Fatal(fmt.Sprintf("scheduler horizon of %d points exceeded (a thread does not terminate under the scheduler)", s.horizon))
	}
	u := uintptr(loc)
	switch kind {
	case verifhook.KRead:
		if u != 0 {
			s.access(t, u, false)
		}
	case verifhook.KWrite:
		if u != 0 {
			s.access(t, u, true)
		}
	case verifhook.KUnlock:
		l := s.lock(u)
		l.writer = -1
		l.relW = append([]int{}, t.vc...)
		t.vc[t.id]++
	case verifhook.KRUnlock:
		l := s.lock(u)
		delete(l.readers, t.id)
		if l.relR == nil {
			l.relR = make([]int, len(t.vc))
		}
		join(l.relR, t.vc)
		t.vc[t.id]++
	case verifhook.KLock, verifhook.KRLock:
		t.wantLock, t.wantKind = u, kind
	}
	s.res.Schedule = append(s.res.Schedule, t.id)
	en := s.enabled(t.id)
	next := s.choose(en, t.id)
	if next < 0 {
		s.res.Deadlock = true
		close(s.done)
		select {} // this thread can never run again
	}
	if next != t.id {
		s.cur = next
		nt := s.threads[next]
		nt.started = true
		nt.wake <- struct{}{}
		<-t.wake
	}
	if t.wantLock != 0 {
		l := s.lock(t.wantLock)
		if t.wantKind == verifhook.KLock {
			l.writer = t.id
			join(t.vc, l.relW)
			join(t.vc, l.relR)
		} else {
			l.readers[t.id]++
			join(t.vc, l.relW)
		}
		t.wantLock = 0
	}
}

func (s *Sched) finish(t *thr) {
	t.finished = true
	s.finished++
	if s.finished == len(s.threads) {
		close(s.done)
		return
	}
	en := s.enabled(-1)
	next := s.choose(en, -1)
	if next < 0 {
		s.res.Deadlock = true
		close(s.done)
		return
	}
	s.cur = next
	nt := s.threads[next]
	nt.started = true
	nt.wake <- struct{}{}
}

// DescribeRaces renders distinct races.
func DescribeRaces(rs []Race, names map[uintptr]string) []string {
	seen := map[string]bool{}
	var out []string
	for _, r := range rs {
		n := names[r.Loc]
		if n == "" {
			n = "hooked location"
		}
		d := fmt.Sprintf("%s race on %s between thread %d and thread %d", r.Kind, n, r.T1, r.T2)
		if !seen[d] {
			seen[d] = true
			out = append(out, d)
		}
	}
	sort.Strings(out)
	return out
}

package props

import (
	"encoding/json"
	"math"
	"regexp"
	"strconv"
	"strings"
	"unicode/utf16"
	"unicode/utf8"

	"verif/mc/explore"
	"verif/mc/impl"
)

// refJSONString decodes the body of a JSON string literal (between the
// quotes) strictly per RFC 8259: ok=false for malformed escapes, unpaired
// surrogates and raw control characters.
func refJSONString(body string, quote rune) (string, bool) {
	var out []rune
	rs := []rune(body)
	hex4 := func(i int) (rune, bool) {
		if i+4 > len(rs) {
			return 0, false
		}
		var v rune
		for _, c := range rs[i : i+4] {
			switch {
			case c >= '0' && c <= '9':
				v = v<<4 | (c - '0')
			case c >= 'a' && c <= 'f':
				v = v<<4 | (c - 'a' + 10)
			case c >= 'A' && c <= 'F':
				v = v<<4 | (c - 'A' + 10)
			default:
				return 0, false
			}
		}
		return v, true
	}
	for i := 0; i < len(rs); i++ {
		c := rs[i]
		if c < 0x20 || c == quote {
			return "", false
		}
		if c != '\\' {
			out = append(out, c)
			continue
		}
		i++
		if i >= len(rs) {
			return "", false
		}
		switch rs[i] {
		case '"':
			out = append(out, '"')
		case '\\':
			out = append(out, '\\')
		case '/':
			out = append(out, '/')
		case 'b':
			out = append(out, '\b')
		case 'f':
			out = append(out, '\f')
		case 'n':
			out = append(out, '\n')
		case 'r':
			out = append(out, '\r')
		case 't':
			out = append(out, '\t')
		case 'u':
			v, ok := hex4(i + 1)
			if !ok {
				return "", false
			}
			i += 4
			if utf16.IsSurrogate(v) {
				if v >= 0xDC00 { // lone low surrogate
					return "", false
				}
				if i+2 >= len(rs) || rs[i+1] != '\\' || rs[i+2] != 'u' {
					return "", false
				}
				lo, ok := hex4(i + 3)
				if !ok || lo < 0xDC00 || lo > 0xDFFF {
					return "", false
				}
				i += 6
				v = utf16.DecodeRune(v, lo)
			}
			out = append(out, v)
		default:
			return "", false
		}
	}
	return string(out), true
}

var c11StringUnits = []string{
	"a", "é", "䑁", "😀", " ", "'", "$", ".", "`", "/", "*", "/*", "*/", "~>", ":=", "..", `\"`, `\\`, `\/`, `\b`, `\f`, `\n`, `\r`, `\t`,
	`\u0041`, `\u00e9`, `\u0000`, `\uD83D\uDE00`, `\ud83d`, `\ude00`, `\ufffd`, `\uFFFF`, `\ud7ff`, `\ue000`, `\u12`, `\u+041`, `\u-000`, `\u 041`, `\uZZZZ`, `\q`, `\`,
}

var reJSONNumber = regexp.MustCompile(`^-?(0|[1-9][0-9]*)(\.[0-9]+)?([eE][+-]?[0-9]+)?$`)

// the value must not depend on the input: one input of every shape, empty containers included
var c11Inputs = []interface{}{nil, map[string]interface{}{"a": 1.0, "k k": []interface{}{2.0}}, []interface{}{}, []interface{}{1.0, map[string]interface{}{"a": 2.0}},
	map[string]interface{}{}, "s", 0.0}

// c11Check: a valid JSON text must evaluate, on any input, to the value it
// denotes; wantOK=false texts (malformed escapes, lone surrogates, numbers out
// of range) must not compile.
func c11Check(x *explore.Ctx, text string, want interface{}, wantOK bool) {
	c11CheckOn(x, text, want, wantOK, c11Inputs)
}

func c11CheckOn(x *explore.Ctx, text string, want interface{}, wantOK bool, inputs []interface{}) {
	nontrivial := false
	for i, in := range inputs {
		got := impl.Run(text, in)
		x.Eval()
		x.Validated()
		var bad string
		switch {
		case !wantOK:
			if got.Kind != impl.CompileError {
				bad = "a compile error (the text is not a JSON text: malformed escape, unpaired surrogate or number out of range)"
			}
		case got.Kind != impl.Value || !impl.Equal(want, got.Val) || !c11SameZeroSigns(want, got.Val):
			bad = "value " + impl.Render(want)
		default:
			nontrivial = true
		}
		if bad != "" {
			x.Violation("value", "value:"+text+"|"+jsonText(in), explore.Detail{Program: text, Input: jsonText(in), Expected: bad, Observed: got.String()})
		}
		if i == 0 {
			x.Outcome(got.Short())
		}
	}
	if nontrivial {
		x.Nontrivial()
	}
	x.Sample(func() string { return text })
}

// c11SameZeroSigns: a number literal denotes the nearest double, so -0 denotes
// negative zero (as it does for a JSON parser); values are already known to be equal.
func c11SameZeroSigns(a, b interface{}) bool {
	switch x := a.(type) {
	case float64:
		y, ok := b.(float64)
		return !ok || x != 0 || math.Signbit(x) == math.Signbit(y)
	case []interface{}:
		y, ok := b.([]interface{})
		if !ok || len(x) != len(y) {
			return true
		}
		for i := range x {
			if !c11SameZeroSigns(x[i], y[i]) {
				return false
			}
		}
	case map[string]interface{}:
		y, ok := b.(map[string]interface{})
		if !ok {
			return true
		}
		for k, v := range x {
			if !c11SameZeroSigns(v, y[k]) {
				return false
			}
		}
	}
	return true
}

// c11Value builds a JSON value through the chooser and renders it with a
// whitespace policy; leaves shrink with depth to keep the space finite.
type c11Gen struct {
	c  *explore.Chooser
	ws int
}

func (g *c11Gen) sp() string {
	switch g.ws {
	case 1:
		return " "
	case 2:
		return "\n\t"
	}
	return ""
}

func (g *c11Gen) value(depth int, leaves []string) (string, interface{}) {
	n := len(leaves)
	k := g.c.Choose(n + map[bool]int{true: 2, false: 0}[depth > 0])
	if k < n {
		var v interface{}
		json.Unmarshal([]byte(leaves[k]), &v)
		return leaves[k], v
	}
	sub := leaves
	if depth == 2 && len(leaves) > 4 {
		sub = leaves[:4]
	}
	if depth == 1 && len(leaves) > 4 {
		sub = leaves
	}
	if k == n { // array
		cnt := g.c.Choose(3)
		parts := make([]string, cnt)
		vals := make([]interface{}, cnt)
		for i := 0; i < cnt; i++ {
			parts[i], vals[i] = g.value(depth-1, sub)
		}
		return "[" + g.sp() + strings.Join(parts, g.sp()+","+g.sp()) + g.sp() + "]", vals
	}
	keys := []string{`"a"`, `"b"`, `"k k"`}
	cnt := g.c.Choose(3)
	first := g.c.Choose(3)
	obj := map[string]interface{}{}
	var parts []string
	for i := 0; i < cnt; i++ {
		key := keys[(first+i)%3]
		t, v := g.value(depth-1, sub)
		var ks string
		json.Unmarshal([]byte(key), &ks)
		obj[ks] = v
		parts = append(parts, key+g.sp()+":"+g.sp()+t)
	}
	return "{" + g.sp() + strings.Join(parts, g.sp()+","+g.sp()) + g.sp() + "}", obj
}

func init() {
	explore.Register(&explore.Prop{
		ID:        "C11",
		Title:     "JSON texts are expressions that denote themselves",
		Technique: "exhaustive enumeration of bounded JSON texts (strings over an escape/character alphabet, the number-syntax product, all small structures) against a strict RFC 8259 reference decoder cross-checked with encoding/json",
		Rule: "each JSON text is one case, evaluated on 7 inputs (null, object, empty array, array, empty object, string, number); non-trivial when the text is valid JSON and evaluates to the denoted value; " +
			"texts with malformed escapes, unpaired surrogates or out-of-range numbers must fail to compile",
		Assumptions: []string{
			"number-like texts that JSON itself rejects (leading zeros, bare dots) are outside the statement and only checked for totality by C08",
		},
		Phases: []explore.Phase{
			{Name: "strings", Quick: []int{0, 1, 2, 3}, Thorough: []int{0, 1, 2, 3, 4, 5}, Run: func(c *explore.Chooser, x *explore.Ctx, size int) {
				var sb strings.Builder
				hasQuote := false
				for i := 0; i < size; i++ {
					u := c11StringUnits[c.Choose(len(c11StringUnits))]
					if u == "'" {
						hasQuote = true
					}
					sb.WriteString(u)
				}
				single := c.Bool()
				c.Done()
				body := sb.String()
				// a lone backslash unit followed by an escape unit re-tokenises (\ + \" reads as an escaped
				// backslash and a closing quote): the text is then not one string literal and the statement is silent
				q := byte('"')
				if single {
					q = '\''
				}
				for i := 0; i < len(body); i++ {
					if body[i] == '\\' {
						i++
						continue
					}
					if body[i] == q {
						return
					}
				}
				want, ok := refJSONString(body, '"')
				if single {
					// the same content between single quotes: a raw " is an ordinary
					// character there, a raw ' is not
					want, ok = refJSONString(body, '\'')
				}
				if ok && !single {
					// harness self-check: the reference decoder agrees with encoding/json on valid texts
					var s string
					if err := json.Unmarshal([]byte(`"`+body+`"`), &s); err != nil || s != want {
						panic("c11: reference JSON string decoder disagrees with encoding/json on " + body)
					}
				}
				if single {
					if hasQuote {
						return // a raw ' would end the literal: not the same text
					}
					if size >= 5 {
						c11CheckOn(x, "'"+body+"'", want, ok, c11Inputs[1:2])
						return
					}
					c11Check(x, "'"+body+"'", want, ok)
					return
				}
				if size >= 5 { // the longest strings on one input (a literal does not look at its input)
					c11CheckOn(x, `"`+body+`"`, want, ok, c11Inputs[1:2])
					return
				}
				c11Check(x, `"`+body+`"`, want, ok)
			}},
			{Name: "numbers", Quick: []int{1}, Run: func(c *explore.Chooser, x *explore.Ctx, _ int) {
				sign := []string{"", "-"}[c.Choose(2)]
				ints := []string{"0", "1", "10", "123", "9007199254740993", "12345678901234567", strings.Repeat("9", 400), "179769313486231570" + strings.Repeat("0", 291)}
				in := ints[c.Choose(len(ints))]
				fr := []string{"", ".0", ".5", ".00000000000000000001", ".123456789012345678"}[c.Choose(5)]
				ex := []string{"", "e0", "E5", "e+5", "e-5", "e308", "e309", "e-324", "e-400", "E-10"}[c.Choose(10)]
				nest := c.Choose(3)
				c.Done()
				t := sign + in + fr + ex
				if !reJSONNumber.MatchString(t) {
					return
				}
				f, err := strconv.ParseFloat(t, 64)
				ok := err == nil && !math.IsInf(f, 0)
				var want interface{} = f
				text := t
				switch nest {
				case 1:
					text, want = "["+t+"]", []interface{}{f}
				case 2:
					text, want = `{"n":`+t+`}`, map[string]interface{}{"n": f}
				}
				c11Check(x, text, want, ok)
			}},
			{Name: "structures", Quick: []int{0, 1, 2}, Thorough: []int{0, 1, 2, 3}, Run: func(c *explore.Chooser, x *explore.Ctx, depth int) {
				g := &c11Gen{c: c, ws: c.Choose(3)}
				leaves := []string{`1`, `"a"`, `null`, `true`, `[]`, `{}`}
				if depth == 3 {
					leaves = []string{`1`, `null`}
				}
				// force the top level to be a container of exactly this depth budget
				text, want := g.value(depth, leaves)
				c.Done()
				if !utf8.ValidString(text) {
					return
				}
				if depth >= 3 {
					c11CheckOn(x, text, want, true, c11Inputs[1:2]) // the deepest structures on one input
					return
				}
				c11Check(x, text, want, true)
			}},
		},
	})
}

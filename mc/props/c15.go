package props

import (
	"math"
	"math/big"
	"sort"
	"strings"

	"verif/mc/explore"
	"verif/mc/impl"
	"verif/mc/ref"
)

func c15Domain(tier int) []interface{} {
	d := []interface{}{1.0, "1", true, []interface{}{1.0}, map[string]interface{}{"a": 1.0}}
	if tier > 0 {
		d = append(d, 2.0, map[string]interface{}{"a": "1"}, []interface{}{[]interface{}{1.0}}, "a")
	}
	return d
}

// c15Arg is what the path `a` yields for member value v: an empty array is no value.
func c15Arg(v interface{}) interface{} {
	if a, ok := v.([]interface{}); ok && len(a) == 0 {
		return ref.U
	}
	return v
}

func c15List(v interface{}) []interface{} {
	if a, ok := v.([]interface{}); ok {
		return a
	}
	return []interface{}{v}
}

func deepEq(a, b interface{}) bool {
	e, ok := ref.DeepEqual(a, b)
	return e && ok
}

type c15Callback struct {
	src   string
	arity int
	// apply returns the callback's result for (value, index, array); ref.U for nothing
	apply func(v interface{}, i int, arr []interface{}) interface{}
}

var c15Callbacks = []c15Callback{
	{`function($v){$v}`, 1, func(v interface{}, i int, a []interface{}) interface{} { return v }},
	{`function($v,$i){$i}`, 2, func(v interface{}, i int, a []interface{}) interface{} { return float64(i) }},
	{`function($v,$i,$a){$count($a)}`, 3, func(v interface{}, i int, a []interface{}) interface{} { return float64(len(a)) }},
	{`function(){7}`, 0, func(v interface{}, i int, a []interface{}) interface{} { return 7.0 }},
	{`function()<:n>{7}`, 0, func(v interface{}, i int, a []interface{}) interface{} { return 7.0 }}, // a declared arity of 0: called without arguments
	{`function($v)<x:x>{$v}`, 1, func(v interface{}, i int, a []interface{}) interface{} { return v }},
	{`function($v,$i)<xn:n>{$i}`, 2, func(v interface{}, i int, a []interface{}) interface{} { return float64(i) }},
	{`function($v,$i,$a,$z){[$i, $exists($z)]}`, 4, func(v interface{}, i int, a []interface{}) interface{} { return []interface{}{float64(i), false} }},
	{`function($v){$v = 1 ? "one" : nothing}`, 1, func(v interface{}, i int, a []interface{}) interface{} {
		if f, ok := v.(float64); ok && f == 1 {
			return "one"
		}
		return ref.U
	}},
	{`function($v,$i){$i = 1}`, 2, func(v interface{}, i int, a []interface{}) interface{} { return i == 1 }},
	{`function($v){$v = 1}`, 1, func(v interface{}, i int, a []interface{}) interface{} { return deepEq(v, 1.0) }},
	{`$string`, 1, func(v interface{}, i int, a []interface{}) interface{} { return ref.StringOf(v) }},
	{`$boolean`, 1, func(v interface{}, i int, a []interface{}) interface{} { return ref.Truthy(v) }},
	{`$append(?, 9)`, 1, func(v interface{}, i int, a []interface{}) interface{} {
		return append(append([]interface{}{}, c15List(v)...), 9.0)
	}},
	{`$string ~> $length`, 1, func(v interface{}, i int, a []interface{}) interface{} {
		return float64(len([]rune(ref.StringOf(v))))
	}},
}

func c15Expect(x *explore.Ctx, prog string, doc map[string]interface{}, want interface{}, wantErr bool) impl.Outcome {
	got := c16Expect(x, prog, doc, want, wantErr, true)
	x.Outcome(got.Short())
	if got.Kind == impl.Value {
		x.Nontrivial()
	}
	x.Sample(func() string { return prog + " on " + jsonText(doc) })
	return got
}

func c15Array(c *explore.Chooser, n int, dom []interface{}) []interface{} {
	arr := make([]interface{}, n)
	for i := range arr {
		arr[i] = impl.Clone(dom[c.Choose(len(dom))])
	}
	return arr
}

func init() {
	sizes := func(hi int) []int {
		var s []int
		for i := 0; i <= hi; i++ {
			s = append(s, i)
		}
		return s
	}
	tierOf := func(n int) int {
		if n >= 4 {
			return 1
		}
		return 0
	}
	explore.Register(&explore.Prop{
		ID:        "C15",
		Title:     "Array, higher-order and aggregate functions compute their definitions",
		Technique: "exhaustive enumeration of all arrays up to a length over a kind-mixing value domain (value-equal-but-kind-different members) x call shapes x callbacks of arity 0..4, built-ins, partials and chains as callbacks, against reference definitions written from the statement",
		Rule: "a case is one (function shape, array(s), callback) tuple, arrays supplied through the input document; oracle: the reference definition (argument trimming to the callback's arity, left fold, " +
			"kind-sensitive first-occurrence distinct, permutation for $shuffle, aggregates with no value for empty input and errors for non-numbers); non-trivial when a value is returned",
		Assumptions: []string{
			"scalars in array position count as one-member arrays; for $distinct of a scalar both the scalar and the one-member array are accepted",
			"arrays longer than 4 members and domains beyond the 9 values are outside the bound",
		},
		Phases: []explore.Phase{
			{Name: "map-filter-single", Quick: sizes(4), Thorough: sizes(6), ShardDepth: 3, Run: func(c *explore.Chooser, x *explore.Ctx, n int) {
				dom := c15Domain(tierOf(n))
				arr := c15Array(c, n, dom)
				cb := c15Callbacks[c.Choose(len(c15Callbacks))]
				fn := c.Choose(3)
				scalar := n == 1 && c.Bool() // a scalar in array position
				c.Done()
				var member interface{} = arr
				if scalar {
					member = arr[0]
				}
				doc := map[string]interface{}{"a": member}
				arg := c15Arg(member)
				if ref.IsUndef(arg) {
					c15Expect(x, []string{"$map", "$filter", "$single"}[fn]+"(a, "+cb.src+")", doc, ref.U, false)
					return
				}
				list := c15List(arg)
				switch fn {
				case 0:
					out := []interface{}{}
					for i, v := range list {
						if r := cb.apply(v, i, list); !ref.IsUndef(r) {
							out = append(out, r)
						}
					}
					c15Expect(x, "$map(a, "+cb.src+")", doc, out, false)
				case 1:
					out := []interface{}{}
					for i, v := range list {
						if ref.Truthy(cb.apply(v, i, list)) {
							out = append(out, v)
						}
					}
					c15Expect(x, "$filter(a, "+cb.src+")", doc, out, false)
				default:
					var hits []interface{}
					for i, v := range list {
						if ref.Truthy(cb.apply(v, i, list)) {
							hits = append(hits, v)
						}
					}
					if len(hits) == 1 {
						c15Expect(x, "$single(a, "+cb.src+")", doc, hits[0], false)
					} else {
						c15Expect(x, "$single(a, "+cb.src+")", doc, nil, true)
					}
				}
			}},
			{Name: "reduce", Quick: sizes(4), Thorough: sizes(7), ShardDepth: 3, Run: func(c *explore.Chooser, x *explore.Ctx, n int) {
				dom := []interface{}{1.0, "1", true, "b", 2.0}
				arr := c15Array(c, n, dom)
				form := c.Choose(5)
				scalar := n == 1 && c.Bool() // a scalar in array position
				c.Done()
				doc := map[string]interface{}{"a": arr}
				if scalar {
					doc["a"] = arr[0]
				}
				fold := func(seed interface{}, list []interface{}) interface{} {
					acc := seed
					for _, v := range list {
						acc = ref.StringOf(acc) + "," + ref.StringOf(v)
					}
					return acc
				}
				f2 := `function($a,$b){$a & "," & $string($b)}`
				switch form {
				case 0:
					if n == 0 {
						c15Expect(x, "$reduce(a, "+f2+")", doc, ref.U, false)
						return
					}
					c15Expect(x, "$reduce(a, "+f2+")", doc, fold(arr[0], arr[1:]), false)
				case 1:
					if n == 0 {
						c15Expect(x, "$reduce(a, "+f2+`, "S")`, doc, ref.U, false)
						return
					}
					c15Expect(x, "$reduce(a, "+f2+`, "S")`, doc, fold("S", arr), false)
				case 2:
					if n == 0 {
						c15Expect(x, "$reduce(a, function($a){$a})", doc, ref.U, false)
						return
					}
					c15Expect(x, "$reduce(a, function($a){$a})", doc, nil, true)
				case 3:
					if n == 0 {
						return
					}
					c15Expect(x, "$reduce(a, function($a,$b,$c){$a})", doc, nil, true)
				default: // literal empty array with and without a seed; seeds that are the zero value of their kind
					c15Expect(x, "$reduce([], "+f2+`, "S")`, doc, "S", false)
					for _, seed := range []struct {
						src string
						val interface{}
					}{{"0", 0.0}, {`""`, ""}, {"false", false}} {
						c15Expect(x, "$reduce([], "+f2+", "+seed.src+")", doc, seed.val, false)
						if n > 0 {
							c15Expect(x, "$reduce(a, "+f2+", "+seed.src+")", doc, fold(seed.val, c15List(c15Arg(doc["a"]))), false)
						}
					}
				}
			}},
			{Name: "append-reverse-zip", Quick: sizes(3), Thorough: sizes(5), ShardDepth: 3, Run: func(c *explore.Chooser, x *explore.Ctx, n int) {
				dom := c15Domain(0)
				a := c15Array(c, n, dom)
				b := c15Array(c, c.Choose(3), dom)
				form := c.Choose(6)
				sa, sb := n == 1 && c.Bool(), c.Bool()
				c.Done()
				var ma, mb interface{} = a, b
				if sa {
					ma = a[0]
				}
				if sb && len(b) == 1 {
					mb = b[0]
				}
				doc := map[string]interface{}{"a": ma, "b": mb}
				aa, ab := c15Arg(ma), c15Arg(mb)
				switch form {
				case 0: // $append
					switch {
					case ref.IsUndef(aa) && ref.IsUndef(ab):
						c15Expect(x, "$append(a, b)", doc, ref.U, false)
					case ref.IsUndef(ab):
						c15Expect(x, "$append(a, b)", doc, aa, false)
					case ref.IsUndef(aa):
						c15Expect(x, "$append(a, b)", doc, ab, false)
					default:
						c15Expect(x, "$append(a, b)", doc, append(append([]interface{}{}, c15List(aa)...), c15List(ab)...), false)
					}
				case 1: // $reverse
					if ref.IsUndef(aa) {
						c15Expect(x, "$reverse(a)", doc, ref.U, false)
						return
					}
					l := c15List(aa)
					out := make([]interface{}, len(l))
					for i, v := range l {
						out[len(l)-1-i] = v
					}
					c15Expect(x, "$reverse(a)", doc, out, false)
				case 2, 3: // $zip with 2 and 3 arguments
					args := []interface{}{aa, ab}
					prog := "$zip(a, b)"
					if form == 3 {
						args = append(args, aa)
						prog = "$zip(a, b, a)"
					}
					min := -1
					for _, v := range args {
						if ref.IsUndef(v) {
							min = 0
							break
						}
						if l := len(c15List(v)); min < 0 || l < min {
							min = l
						}
					}
					out := []interface{}{}
					for i := 0; i < min; i++ {
						row := []interface{}{}
						for _, v := range args {
							row = append(row, c15List(v)[i])
						}
						out = append(out, row)
					}
					c15Expect(x, prog, doc, out, false)
				case 4: // $count
					if ref.IsUndef(aa) {
						c15Expect(x, "$count(a)", doc, 0.0, false)
						return
					}
					c15Expect(x, "$count(a)", doc, float64(len(c15List(aa))), false)
				default: // $append keeps nested arrays as members
					if ref.IsUndef(aa) {
						return
					}
					c15Expect(x, "$count($append(a, [[1,2]]))", doc, float64(len(c15List(aa))+1), false)
					// a literal empty array is an array with no members (unlike an empty array selected from the
					// input, which is no value): the other operand still counts as an array
					c15Expect(x, "$append(a, [])", doc, append([]interface{}{}, c15List(aa)...), false)
					c15Expect(x, "$append([], a)", doc, append([]interface{}{}, c15List(aa)...), false)
					c15Expect(x, "$append(a, [[]])", doc, append(append([]interface{}{}, c15List(aa)...), []interface{}{}), false)
				}
			}},
			{Name: "compositions", Quick: sizes(4), Thorough: sizes(8), ShardDepth: 3, Run: func(c *explore.Chooser, x *explore.Ctx, n int) {
				// the operand is used again after the function was applied to it
				arr := c15Array(c, n, []interface{}{1.0, "1", 2.0, []interface{}{1.0}})
				form := c.Choose(10)
				c.Done()
				if n == 0 {
					return
				}
				doc := map[string]interface{}{"a": arr}
				rev := make([]interface{}, n)
				for i, v := range arr {
					rev[n-1-i] = v
				}
				cat := func(p, q []interface{}) []interface{} { return append(append([]interface{}{}, p...), q...) }
				switch form {
				case 0:
					c15Expect(x, "$append(a, $reverse(a))", doc, cat(arr, rev), false)
				case 1:
					c15Expect(x, "$append($reverse(a), a)", doc, cat(rev, arr), false)
				case 2:
					out := []interface{}{}
					for i := range arr {
						out = append(out, []interface{}{arr[i], rev[i]})
					}
					c15Expect(x, "$zip(a, $reverse(a))", doc, out, false)
				case 3:
					c15Expect(x, "($x := a; $y := $reverse($x); $append($x, $y))", doc, cat(arr, rev), false)
				case 4:
					c15Expect(x, "$reverse($reverse(a))", doc, arr, false)
				case 5:
					c15Expect(x, "($r := $reverse(a); $count($distinct(a)) = $count($distinct($r)))", doc, true, false)
				case 6:
					c15Expect(x, "($m := $map(a, function($v){$v}); $f := $filter(a, function($v){true}); $append($m, $f))", doc, cat(arr, arr), false)
				case 7:
					c15Expect(x, "($s := $shuffle(a); $append(a, a))", doc, cat(arr, arr), false)
				case 8: // two results built from the same base never share storage
					c15Expect(x, `{"x": $append(a, "p"), "y": $append(a, "q")}`, doc, map[string]interface{}{"x": cat(arr, []interface{}{"p"}), "y": cat(arr, []interface{}{"q"})}, false)
				default:
					out := []interface{}{}
					for _, v := range []interface{}{"p", "q"} {
						out = append(out, cat(arr, []interface{}{v}))
					}
					c15Expect(x, `$map(["p", "q"], function($x){[$append(a, $x)]})`, doc, out, false)
				}
			}},
			{Name: "partials-as-callbacks", Quick: sizes(3), Thorough: sizes(5), ShardDepth: 3, Run: func(c *explore.Chooser, x *explore.Ctx, n int) {
				// f(?, c...) used as the function argument behaves as the lambda function($v){f($v, c...)}:
				// same outcome on every array, member by member (the fixed arguments are the same for every call)
				pairs := [][2]string{
					{`$string(?, false)`, `function($v){$string($v, false)}`},
					{`$round(?, 1)`, `function($v){$round($v, 1)}`},
					{`$pad(?, 3, ".")`, `function($v){$pad($v, 3, ".")}`},
					{`$join(?, "-")`, `function($v){$join($v, "-")}`},
					{`$substring(?, 0, 1)`, `function($v){$substring($v, 0, 1)}`},
					{`$append(?, 9)`, `function($v){$append($v, 9)}`},
					{`$reduce(?, function($a, $x){$a & $x}, "s")`, `function($v){$reduce($v, function($a, $x){$a & $x}, "s")}`},
					{`$formatBase(?, 2)`, `function($v){$formatBase($v, 2)}`},
					{`$contains(?, "1")`, `function($v){$contains($v, "1")}`},
					{`$split(?, "", 1)`, `function($v){$split($v, "", 1)}`},
					{`$sort(?, function($l, $r){$l > $r})`, `function($v){$sort($v, function($l, $r){$l > $r})}`},
					{`$lookup(?, "a")`, `function($v){$lookup($v, "a")}`},
				}
				doms := [][]interface{}{{1.26, 2.5, "1", []interface{}{"x", "y"}}, {"ab1", "1", 3.0, map[string]interface{}{"a": 1.0}}}
				pi := c.Choose(len(pairs))
				arr := c15Array(c, n, doms[c.Choose(len(doms))])
				hof := []string{"$map(a, F)", "$filter(a, F)", "a.F($)", "$map(a, F)[0]"}[c.Choose(4)]
				c.Done()
				doc := map[string]interface{}{"a": arr}
				p1 := strings.Replace(hof, "F", pairs[pi][0], 1)
				p2 := strings.Replace(hof, "F", "("+pairs[pi][1]+")", 1)
				o1 := impl.Run(p1, doc)
				o2 := impl.Run(p2, doc)
				x.Eval()
				x.Eval()
				x.Validated()
				same := o1.Kind == o2.Kind && o1.Class == o2.Class && (o1.Kind != impl.Value || impl.Equal(o1.Val, o2.Val))
				if !same {
					x.Violation("value", "value:"+p1+"|"+jsonText(doc), explore.Detail{Program: p1, Input: jsonText(doc),
						Expected: "the outcome of " + p2 + ": " + o2.String(), Observed: o1.String()})
				}
				x.Outcome(o1.Short())
				if o1.Kind == impl.Value {
					x.Nontrivial()
				}
			}},
			{Name: "distinct-shuffle", Quick: sizes(4), Thorough: sizes(6), ShardDepth: 3, Run: func(c *explore.Chooser, x *explore.Ctx, n int) {
				dom := c15Domain(1)
				arr := c15Array(c, n, dom)
				form := c.Choose(3)
				scalar := n == 1 && c.Bool()
				c.Done()
				var member interface{} = arr
				if scalar {
					member = arr[0]
				}
				doc := map[string]interface{}{"a": member}
				arg := c15Arg(member)
				switch form {
				case 0:
					if ref.IsUndef(arg) {
						c15Expect(x, "$distinct(a)", doc, ref.U, false)
						return
					}
					if scalar {
						got := c16Expect(x, "$distinct(a)", doc, nil, false, false)
						x.Validated()
						if got.Kind != impl.Value || !(impl.Equal(got.Val, ref.Norm(arg)) || impl.Equal(got.Val, []interface{}{ref.Norm(arg)})) {
							x.Violation("value", "value:$distinct(a)|"+jsonText(doc), explore.Detail{Program: "$distinct(a)", Input: jsonText(doc), Expected: "the value itself (a one-member sequence)", Observed: got.String()})
						}
						return
					}
					var out []interface{}
					for _, v := range arr {
						dup := false
						for _, w := range out {
							if deepEq(v, w) {
								dup = true
							}
						}
						if !dup {
							out = append(out, v)
						}
					}
					c15Expect(x, "$distinct(a)", doc, out, false)
				case 1: // $shuffle returns a permutation
					if ref.IsUndef(arg) {
						c15Expect(x, "$shuffle(a)", doc, ref.U, false)
						return
					}
					got := c16Expect(x, "$shuffle(a)", doc, nil, false, false)
					x.Validated()
					want := c15List(arg)
					res, _ := got.Val.([]interface{})
					if got.Kind != impl.Value || !sameMultiset(res, want) {
						x.Violation("value", "value:$shuffle(a)|"+jsonText(doc), explore.Detail{Program: "$shuffle(a)", Input: jsonText(doc), Expected: "a permutation of " + impl.Render(want), Observed: got.String()})
					}
					x.Nontrivial()
				default: // kinds stay distinct: count of distinct values
					if ref.IsUndef(arg) || scalar {
						return
					}
					distinct := 0
					for i, v := range arr {
						first := true
						for _, w := range arr[:i] {
							if deepEq(v, w) {
								first = false
							}
						}
						if first {
							distinct++
						}
					}
					c15Expect(x, "$count($distinct(a))", doc, float64(distinct), false)
				}
			}},
			{Name: "aggregates", Quick: sizes(4), Thorough: sizes(6), ShardDepth: 3, Run: func(c *explore.Chooser, x *explore.Ctx, n int) {
				nums := []interface{}{0.0, 1.0, -2.0, 0.5, 1e308, -1e308}
				arr := c15Array(c, n, nums)
				fn := c.Choose(5)
				mode := c.Choose(4) // plain, one foreign member, scalar, literal empty
				var foreign interface{}
				pos := 0
				if mode == 1 && n > 0 {
					foreign = []interface{}{"1", true, []interface{}{1.0}, map[string]interface{}{}, nil}[c.Choose(5)]
					pos = c.Choose(n)
				}
				c.Done()
				name := []string{"count", "sum", "max", "min", "average"}[fn]
				doc := map[string]interface{}{"a": arr}
				prog := "$" + name + "(a)"
				list := arr
				switch mode {
				case 1:
					if n == 0 {
						return
					}
					arr[pos] = foreign
					if name == "count" {
						if n == 1 {
							if foreign == nil {
								return
							}
							if fa, ok := foreign.([]interface{}); ok {
								c15Expect(x, prog, doc, float64(len(fa)), false)
								return
							}
						}
						c15Expect(x, prog, doc, float64(n), false)
						return
					}
					if foreign == nil || (n == 1 && foreign != nil) {
						// null members, and a single foreign member reached through the path, are outside the statement
						c16Expect(x, prog, doc, nil, false, false)
						return
					}
					c15Expect(x, prog, doc, nil, true)
					return
				case 2:
					if n != 1 {
						return
					}
					doc["a"] = arr[0]
				case 3:
					prog = "$" + name + "([])"
					list = nil
					if n != 0 {
						return
					}
				}
				if n == 0 && mode != 3 {
					// the path selects nothing from an empty array: missing argument
					if name == "count" {
						c15Expect(x, prog, doc, 0.0, false)
					} else {
						c15Expect(x, prog, doc, ref.U, false)
					}
					return
				}
				sum, max, min := 0.0, math.Inf(-1), math.Inf(1)
				for _, v := range list {
					f := v.(float64)
					sum += f
					max, min = math.Max(max, f), math.Min(min, f)
				}
				switch name {
				case "count":
					c15Expect(x, prog, doc, float64(len(list)), false)
				case "sum":
					// the sum of the members, whatever the partial totals do on the way
					total := new(big.Rat)
					for _, v := range list {
						total.Add(total, new(big.Rat).SetFloat64(v.(float64)))
					}
					exact, _ := total.Float64()
					if !math.IsInf(exact, 0) && math.IsInf(sum, 0) {
						sum = exact
					}
					c15Expect(x, prog, doc, sum, math.IsInf(exact, 0))
				case "max":
					if len(list) == 0 {
						c15Expect(x, prog, doc, ref.U, false)
						return
					}
					c15Expect(x, prog, doc, max, false)
				case "min":
					if len(list) == 0 {
						c15Expect(x, prog, doc, ref.U, false)
						return
					}
					c15Expect(x, prog, doc, min, false)
				default:
					if len(list) == 0 {
						c15Expect(x, prog, doc, ref.U, false)
						return
					}
					// the mean of finite numbers is representable even when their total is not
					total := new(big.Rat)
					for _, v := range list {
						total.Add(total, new(big.Rat).SetFloat64(v.(float64)))
					}
					mean, _ := total.Quo(total, new(big.Rat).SetInt64(int64(len(list)))).Float64()
					if !math.IsInf(sum, 0) {
						mean = sum / float64(len(list)) // ordinary floating-point summation, member by member
					}
					c15Expect(x, prog, doc, mean, false)
				}
			}},
			{Name: "distinct-computed", Quick: []int{1}, ShardDepth: -1, Run: func(c *explore.Chooser, x *explore.Ctx, _ int) {
				// values are compared by value whatever function produced them
				twins := [][2]string{{`$count([0])`, `1`}, {`$length("ab")`, `2`}, {`$split("a,b", ",")`, `["a","b"]`}, {`$keys({"a":1})`, `"a"`},
					{`{"n": $count([1])}`, `{"n": 1}`}, {`[$length("a")]`, `[1]`}, {`$map([5], function($v,$i){$i})`, `0`}}
				t := twins[c.Choose(len(twins))]
				form := c.Choose(3)
				c.Done()
				prog := []string{"$count($distinct([" + t[1] + ", " + t[0] + "]))", "$count($distinct([[" + t[0] + "], [" + t[1] + "]]))", "$count($distinct([" + t[0] + ", " + t[1] + ", " + t[0] + "]))"}[form]
				if strings.HasPrefix(t[1], "[") {
					// an array-valued function result is flattened by a surrounding array constructor: compare inside objects
					prog = `$count($distinct([{"k": ` + t[0] + `}, {"k": ` + t[1] + `}]))`
				}
				got := c16Expect(x, prog, map[string]interface{}{}, 1.0, false, true)
				x.Outcome(got.Short())
				x.Nontrivial()
			}},
			{Name: "shuffle-varies", Quick: []int{1}, ShardDepth: -1, Run: func(c *explore.Chooser, x *explore.Ctx, _ int) {
				c.Done()
				// liveness-style sanity: over 64 calls on 3 members at least two orders appear (a warning, never a violation)
				seen := map[string]bool{}
				for i := 0; i < 64; i++ {
					seen[impl.Run("$shuffle([1,2,3])", nil).Short()] = true
				}
				x.Eval()
				x.Outcome("shuffle orders observed: " + strings.Repeat("*", len(seen)))
			}},
		},
	})
}

func sameMultiset(a, b []interface{}) bool {
	if len(a) != len(b) {
		return false
	}
	ra, rb := make([]string, len(a)), make([]string, len(b))
	for i := range a {
		ra[i], rb[i] = impl.Render(a[i]), impl.Render(ref.Norm(b[i]))
	}
	sort.Strings(ra)
	sort.Strings(rb)
	for i := range ra {
		if ra[i] != rb[i] {
			return false
		}
	}
	return true
}

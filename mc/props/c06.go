package props

import (
	"fmt"
	"os"
	"os/exec"
	"path/filepath"
	"runtime"
	"runtime/debug"
	"sort"
	"strconv"
	"strings"

	jsonata "github.com/blues/jsonata-go"

	"verif/mc/explore"
	"verif/mc/impl"
	"verif/mc/sched"
)

// programs chosen so that threads are forced to collide on the same shared
// objects (process-wide built-in function objects, one shared syntax tree,
// the package registry) while their correct results differ per thread.
var c06Programs = []string{
	`a.$substringBefore("z")`,                        // context-defaulting built-in under a path
	`a.$substringBefore($, "z")`,                     // the same built-in with every argument supplied
	`a.$string()`,                                    // another context-defaulting built-in
	`a.$pad(5, "-")`,                                 //
	`a ~> $substringBefore("z")`,                     // chain with a call on the right (rewrites the call's arguments)
	`n ~> $power(2)`,                                 //
	`a ~> $substringBefore`,                          // bare function value on the right of a chain
	`$pad(?, 5, "*")(a)`,                             // partial application of a built-in
	`(function($x){$x & a})("q")`,                    // lambda closing over the context
	`o^(k).v`,                                        // sort
	`$$ ~> |o|{"z": $$.a}|`,                          // transform
	`$match(a, /[A-Z]/).match`,                       // regex
	`a.$substringBefore($$.b.$substringBefore("z"))`, // built-in nested in its own argument
	`$uppercase(a) & $x`,                             // registered variable
	`a ~> $replace("z", "-", 1)`,                     // chain with a three-argument call (argument list with spare capacity in the tree)
	`$join([a, $string($sum(o.k))], "-")`,            // built-ins that never take the context item ($join, $sum)
	// family E (from index c06FnFirst): function values produced by an earlier evaluation and shared by
	// every expression through RegisterVars - lambda, partial, transform, regex and chain objects
	`$fv(a)`,
	`$fv(n)`, // fails the lambda's signature: the error is built from the function object's name
	`$pv(a)`,
	`$tv($$).o.z`,
	`$rv(a).match`,
	`$cv(a)`,
	`($f := $join; $f([a, "q"], "-"))`, // a process-wide built-in called under another name
	`($g := $join; $g([a, "r"], "+"))`, //
	`$filter([a], $join)`,              // fails inside $join: the error names the function object
}

const c06FnFirst = 16

// c06FnVars are evaluated once per process; the same objects are registered before every execution.
var c06FnVars map[string]interface{}

func c06FnValues() map[string]interface{} {
	if c06FnVars == nil {
		c06FnVars = map[string]interface{}{"x": "gx"}
		for name, src := range map[string]string{"fv": `function($s)<s:s>{$s & "!"}`, "pv": `$pad(?, 5, "*")`, "tv": `|o|{"z": 1}|`, "rv": `/[A-Z]/`, "cv": `$uppercase ~> $trim`} {
			v, err := jsonata.MustCompile(src).Eval(nil)
			if err != nil {
				panic("c06FnValues: " + src + ": " + err.Error())
			}
			c06FnVars[name] = v
		}
	}
	return c06FnVars
}

func c06Doc(thread int) interface{} {
	a := []string{"xAz", "yBz", "wCz"}[thread%3]
	return map[string]interface{}{"a": a, "b": a + "z-b", "n": float64(3 + 2*thread),
		"o": []interface{}{map[string]interface{}{"k": float64(2 - thread), "v": "p" + a}, map[string]interface{}{"k": 1.0, "v": "q" + a}}}
}

type c06Op struct {
	kind byte // 'E' eval pooled expr, 'C' compile then eval, 'V' package RegisterVars, 'X' package RegisterExts
	prog int  // program index ('E'), or variant
}

type c06Scenario struct {
	name    string
	threads [][]c06Op
	shared  bool // threads evaluating the same program index share one Expr
	preReg  bool // a package-level registration precedes everything
}

var c06RegPrograms = []string{`[$x, $y]`, `$f(a)`, `[$exists($x), $exists($f)]`}

var c06ScenarioCache = map[string][]c06Scenario{}

func c06Scenarios(tier string) []c06Scenario {
	if sc, ok := c06ScenarioCache[tier]; ok {
		return sc
	}
	sc := c06MakeScenarios(tier)
	c06ScenarioCache[tier] = sc
	return sc
}

func c06MakeScenarios(tier string) []c06Scenario {
	var out []c06Scenario
	np := c06FnFirst
	// family A: two threads, one Eval each
	for i := 0; i < np; i++ {
		for j := 0; j < np; j++ {
			out = append(out, c06Scenario{name: fmt.Sprintf("eval %d || eval %d (own Exprs)", i, j), threads: [][]c06Op{{{'E', i}}, {{'E', j}}}})
		}
		out = append(out, c06Scenario{name: fmt.Sprintf("eval %d || eval %d (one shared Expr)", i, i), threads: [][]c06Op{{{'E', i}}, {{'E', i}}}, shared: true})
	}
	// family C: Compile / package-level registration in parallel
	for _, pre := range []bool{false, true} {
		for rp := range c06RegPrograms {
			for _, reg := range []byte{'V', 'X'} {
				out = append(out, c06Scenario{name: fmt.Sprintf("compile+eval reg-program %d || package registration %c (pre=%v)", rp, reg, pre),
					threads: [][]c06Op{{{'C', rp}}, {{reg, 0}}}, preReg: pre})
			}
			out = append(out, c06Scenario{name: fmt.Sprintf("compile+eval %d || RegisterVars || RegisterExts (pre=%v)", rp, pre),
				threads: [][]c06Op{{{'C', rp}}, {{'V', 0}}, {{'X', 0}}}, preReg: pre})
			out = append(out, c06Scenario{name: fmt.Sprintf("compile+eval %d twice || RegisterVars (pre=%v)", rp, pre),
				threads: [][]c06Op{{{'C', rp}, {'C', rp}}, {{'V', 0}}}, preReg: pre})
		}
	}
	// family B: two operations on one thread against one on the other (shared Expr on the first thread)
	core := []int{0, 1, 4, 6, 7, 12}
	for _, i := range core {
		for _, j := range core {
			out = append(out, c06Scenario{name: fmt.Sprintf("eval %d; eval %d || eval %d", i, j, i), threads: [][]c06Op{{{'E', i}, {'E', j}}, {{'E', i}}}, shared: true})
		}
	}
	// family E: shared function values called under a variable name
	for i := c06FnFirst; i < len(c06Programs); i++ {
		for j := c06FnFirst; j < len(c06Programs); j++ {
			out = append(out, c06Scenario{name: fmt.Sprintf("eval %d || eval %d (own Exprs, shared function values)", i, j), threads: [][]c06Op{{{'E', i}}, {{'E', j}}}})
		}
		out = append(out, c06Scenario{name: fmt.Sprintf("eval %d || eval %d (one shared Expr)", i, i), threads: [][]c06Op{{{'E', i}}, {{'E', i}}}, shared: true})
	}
	if tier == "three" {
		out = nil
		// family D: three threads
		for _, i := range core {
			for _, j := range core {
				for _, k := range core {
					out = append(out, c06Scenario{name: fmt.Sprintf("eval %d || eval %d || eval %d", i, j, k), threads: [][]c06Op{{{'E', i}}, {{'E', j}}, {{'E', k}}}, shared: true})
				}
			}
		}
	}
	return out
}

func c06PreRegister() {
	jsonata.RegisterVars(map[string]interface{}{"y": "pre"})
}

func c06RegVars() error { return jsonata.RegisterVars(map[string]interface{}{"x": "late"}) }

func c06RegExts() error {
	return jsonata.RegisterExts(map[string]jsonata.Extension{"f": {Func: func(s string) string { return "f:" + s }}})
}

// c06Setup resets the process state an execution starts from.
func c06Setup(sc *c06Scenario) map[int]*jsonata.Expr {
	jsonata.VerifResetGlobalRegistry()
	jsonata.RegisterVars(c06FnValues()) // $x for program 13, the function values of family E; compiled into the pooled Exprs
	exprs := map[int]*jsonata.Expr{}
	for ti, ops := range sc.threads {
		for _, op := range ops {
			if op.kind != 'E' {
				continue
			}
			key := op.prog
			if !sc.shared {
				key = op.prog + 1000*ti
			}
			if exprs[key] == nil {
				exprs[key] = jsonata.MustCompile(c06Programs[op.prog])
			}
		}
	}
	jsonata.VerifResetGlobalRegistry()
	if sc.preReg {
		c06PreRegister()
	}
	return exprs
}

type c06Obs struct {
	outcome    string
	start, end int
	compEnd    int
}

// c06Body builds the body of thread ti; observations are written to obs[ti].
func c06Body(sc *c06Scenario, ti int, exprs map[int]*jsonata.Expr, obs [][]c06Obs) func() {
	return func() {
		doc := c06Doc(ti)
		for oi, op := range sc.threads[ti] {
			o := &obs[ti][oi]
			o.start = sched.Now()
			switch op.kind {
			case 'E':
				key := op.prog
				if !sc.shared {
					key = op.prog + 1000*ti
				}
				r := impl.EvalExpr(exprs[key], doc)
				o.outcome = r.Short()
				if r.Kind == impl.Error {
					o.outcome += " " + r.Err.Error() // "exactly the outcome": the function name and argument position an error carries
				}
			case 'C':
				e, err := jsonata.Compile(c06RegPrograms[op.prog])
				o.compEnd = sched.Now()
				if err != nil {
					o.outcome = "compile error " + err.Error()
				} else {
					o.outcome = impl.EvalExpr(e, doc).Short()
				}
			case 'V':
				if err := c06RegVars(); err != nil {
					o.outcome = "error " + err.Error()
				} else {
					o.outcome = "registered"
				}
			case 'X':
				if err := c06RegExts(); err != nil {
					o.outcome = "error " + err.Error()
				} else {
					o.outcome = "registered"
				}
			}
			o.end = sched.Now()
		}
	}
}

// c06Solo computes what each Eval returns when it runs alone.
func c06Solo(sc *c06Scenario) [][]string {
	out := make([][]string, len(sc.threads))
	for ti, ops := range sc.threads {
		out[ti] = make([]string, len(ops))
		exprs := c06Setup(sc)
		obs := make([][]c06Obs, len(sc.threads))
		for i := range obs {
			obs[i] = make([]c06Obs, len(sc.threads[i]))
		}
		c06Body(sc, ti, exprs, obs)()
		for oi := range ops {
			out[ti][oi] = obs[ti][oi].outcome
		}
	}
	return out
}

// c06Expected: for compile+eval operations the outcome depends on which
// package-level registrations completed before Compile started (must be seen)
// or started after Compile returned (must not be seen); overlapping ones may go
// either way. It is computed by running the same operation sequentially with
// exactly the registrations of each admissible subset.
func c06CompileOutcomes(sc *c06Scenario, ti, oi int, mustV, mayV, mustX, mayX bool) map[string]bool {
	out := map[string]bool{}
	for _, v := range []bool{false, true} {
		for _, xx := range []bool{false, true} {
			if (mustV && !v) || (!mustV && !mayV && v) || (mustX && !xx) || (!mustX && !mayX && xx) {
				continue
			}
			jsonata.VerifResetGlobalRegistry()
			if sc.preReg {
				c06PreRegister()
			}
			if v {
				c06RegVars()
			}
			if xx {
				c06RegExts()
			}
			e, err := jsonata.Compile(c06RegPrograms[sc.threads[ti][oi].prog])
			if err != nil {
				out["compile error "+err.Error()] = true
				continue
			}
			out[impl.EvalExpr(e, c06Doc(ti)).Short()] = true
		}
	}
	return out
}

var c06SoloCache = map[string][][]string{}
var c06Execs int

func c06Run(c *explore.Chooser, x *explore.Ctx, bound int, tier string) {
	scs := c06Scenarios(tier)
	si := c.Choose(len(scs))
	sc := &scs[si]
	c.DoneDynamic()
	solo, ok := c06SoloCache[sc.name]
	if !ok {
		solo = c06Solo(sc)
		c06SoloCache[sc.name] = solo
	}
	exprs := c06Setup(sc)
	obs := make([][]c06Obs, len(sc.threads))
	bodies := make([]func(), len(sc.threads))
	for i := range obs {
		obs[i] = make([]c06Obs, len(sc.threads[i]))
		bodies[i] = c06Body(sc, i, exprs, obs)
	}
	var panics []string
	sched.PanicHook = func(t int, r interface{}) { panics = append(panics, fmt.Sprintf("thread %d: %v", t, r)) }
	res := sched.Run(c, bound, 5000, bodies)
	c.Finish()
	x.Eval()
	x.Validated()
	c06Execs++
	if c06Execs%500 == 0 {
		runtime.GC() // collection only between executions: addresses are identities for the race monitor
	}
	sched := fmt.Sprint(res.Schedule)
	detail := func(expected, observed string) explore.Detail {
		return explore.Detail{Program: sc.name + " :: " + c06Render(sc), Input: "thread inputs a=xAz / yBz / wCz", Expected: expected, Observed: observed,
			Note: fmt.Sprintf("preemption bound %d, %d scheduling points, schedule (thread per point) %s", bound, res.Steps, sched)}
	}
	for _, p := range panics {
		x.Violation("panic", "panic:"+sc.name+":"+explore.PanicClass(p), detail("no panic", p))
	}
	if res.Deadlock {
		x.Violation("value", "deadlock:"+sc.name, detail("every thread finishes", "deadlock: no enabled thread while some thread is unfinished"))
	}
	for _, d := range schedRaces(res) {
		x.Violation("value", "race:"+sc.name+":"+d, detail("no two conflicting accesses unordered by happens-before", d))
	}
	vec := ""
	for ti, ops := range sc.threads {
		for oi, op := range ops {
			got := obs[ti][oi].outcome
			vec += got + " | "
			switch op.kind {
			case 'E':
				if got != solo[ti][oi] {
					x.Violation("value", fmt.Sprintf("isolation:%s:t%d.%d", sc.name, ti, oi),
						detail(fmt.Sprintf("thread %d op %d returns what it returns alone: %s", ti, oi, solo[ti][oi]), got))
				}
			case 'C':
				mustV, mayV, mustX, mayX := false, false, false, false
				for tj, ops2 := range sc.threads {
					for oj, op2 := range ops2 {
						if op2.kind != 'V' && op2.kind != 'X' {
							continue
						}
						r := obs[tj][oj]
						must := r.end != 0 && r.end <= obs[ti][oi].start && !(tj == ti && oj > oi)
						never := r.start >= obs[ti][oi].compEnd && obs[ti][oi].compEnd != 0
						if tj == ti {
							must, never = oj < oi, oj > oi
						}
						if op2.kind == 'V' {
							mustV = mustV || must
							mayV = mayV || (!must && !never)
						} else {
							mustX = mustX || must
							mayX = mayX || (!must && !never)
						}
					}
				}
				allowed := c06CompileOutcomes(sc, ti, oi, mustV, mayV, mustX, mayX)
				if !allowed[got] {
					x.Violation("value", fmt.Sprintf("visibility:%s:t%d.%d", sc.name, ti, oi),
						detail(fmt.Sprintf("one of %v (registrations completed before Compile are seen, those started after it are not)", keysOf(allowed)), got))
				}
			default:
				if got != "registered" {
					x.Violation("value", fmt.Sprintf("register:%s", sc.name), detail("registered", got))
				}
			}
		}
	}
	x.Outcome(sc.name + " => " + vec)
	if res.Preempts > 0 {
		x.Nontrivial()
	}
	x.Sample(func() string { return sc.name + " schedule " + sched + " => " + vec })
}

func schedRaces(res sched.Result) []string {
	return sched.DescribeRaces(res.Races, nil)
}

func c06Render(sc *c06Scenario) string {
	var parts []string
	for _, ops := range sc.threads {
		var s []string
		for _, op := range ops {
			switch op.kind {
			case 'E':
				s = append(s, "Eval("+c06Programs[op.prog]+")")
			case 'C':
				s = append(s, "Compile+Eval("+c06RegPrograms[op.prog]+")")
			case 'V':
				s = append(s, `RegisterVars({"x":"late"})`)
			case 'X':
				s = append(s, `RegisterExts({"f":…})`)
			}
		}
		parts = append(parts, strings.Join(s, "; "))
	}
	return strings.Join(parts, "  ||  ")
}

func init() {
	explore.Register(&explore.Prop{
		ID:        "C06",
		Title:     "Concurrent evaluations are isolated and race-free",
		Technique: "stateless model checking of the real code under a cooperative scheduler: every interleaving of 2-3 goroutines at the hooked points up to a preemption bound (iterated 0,1,2; thorough 3), with outcome-isolation oracle, deadlock detection and a vector-clock happens-before race monitor on hooked locations; separately, the same bodies free-running under go build -race (a library race reported in two independent runs is a violation, silence decides nothing)",
		Rule: "a case is one complete schedule (sequence of thread choices at hooked points) of one scenario; oracle: every Eval returns its solo outcome, Compile sees exactly the " +
			"package registrations that happened before it, no deadlock, no unordered conflicting access on a hooked location; non-trivial when the schedule contains a preemption",
		Assumptions: []string{
			"interleavings are at the granularity of the hook points (entry of eval() for every node, reflective calls, accesses to callable name/context, call arguments, registries, registry mutex)",
			"races on locations that are not hooked are only visible through wrong outcomes (or to the auxiliary free-running -race pass)",
			"more than 3 threads / 2 operations per thread are outside the bound",
		},
		Post: c06Post,
		Replay: c06Replay,
		Phases: []explore.Phase{
			{Name: "schedules", Quick: []int{0, 1, 2}, Thorough: []int{0, 1, 2, 3, 4}, ShardDepth: 1,
				Init: func(int) { debug.SetGCPercent(-1) },
				Run:  func(c *explore.Chooser, x *explore.Ctx, bound int) { c06Run(c, x, bound, "quick") }},
			{Name: "schedules-3threads", Thorough: []int{0, 1, 2, 3}, ShardDepth: 1,
				Init: func(int) { debug.SetGCPercent(-1) },
				Run:  func(c *explore.Chooser, x *explore.Ctx, bound int) { c06Run(c, x, bound, "three") }},
		},
	})
}

// C06RacePass is the auxiliary free-running pass: the same scenario bodies on
// real goroutines, to be run in a binary built with -race. It samples
// schedules; it widens race detection to locations that are not hooked and is
// reported under coverage.aux.
func C06RacePass(tier string, iters int) {
	scs := c06Scenarios("quick")
	wrong := 0
	runs := 0
	var firstWrong string
	for si := range scs {
		sc := &scs[si]
		solo := c06Solo(sc)
		hasReg := false
		for _, ops := range sc.threads {
			for _, op := range ops {
				if op.kind != 'E' {
					hasReg = true
				}
			}
		}
		n := iters
		if hasReg {
			n = iters / 4
		}
		for it := 0; it < n; it++ {
			exprs := c06Setup(sc)
			obs := make([][]c06Obs, len(sc.threads))
			done := make(chan struct{}, len(sc.threads))
			start := make(chan struct{})
			for i := range obs {
				obs[i] = make([]c06Obs, len(sc.threads[i]))
				body := c06Body(sc, i, exprs, obs)
				go func() {
					<-start
					func() {
						defer func() { recover() }()
						body()
					}()
					done <- struct{}{}
				}()
			}
			close(start)
			for range sc.threads {
				<-done
			}
			runs++
			for ti, ops := range sc.threads {
				for oi, op := range ops {
					if op.kind == 'E' && obs[ti][oi].outcome != solo[ti][oi] {
						wrong++
						if firstWrong == "" {
							firstWrong = fmt.Sprintf("%s: thread %d got %s, alone %s", sc.name, ti, obs[ti][oi].outcome, solo[ti][oi])
						}
					}
				}
			}
		}
	}
	fmt.Printf("RACEPASS scenarios=%d runs=%d wrong_outcomes=%d first=%q\n", len(scs), runs, wrong, firstWrong)
}

// c06RaceKeys extracts, from the output of a -race binary, one key per reported race: the innermost
// frames of the two conflicting accesses that lie in the library (reports whose accesses are not in
// github.com/blues/jsonata-go are ignored: they would be races of the harness, not of the code under test).
func c06RaceKeys(out string) map[string]string {
	keys := map[string]string{}
	for _, blk := range strings.Split(out, "WARNING: DATA RACE")[1:] {
		if i := strings.Index(blk, "=================="); i >= 0 {
			blk = blk[:i]
		}
		var fns []string
		inAccess := false
		for _, l := range strings.Split(blk, "\n") {
			t := strings.TrimSpace(l)
			switch {
			case strings.HasPrefix(t, "Write at"), strings.HasPrefix(t, "Read at"), strings.HasPrefix(t, "Previous write at"), strings.HasPrefix(t, "Previous read at"):
				inAccess = true
			case strings.HasPrefix(t, "Goroutine "):
				inAccess = false
			case inAccess && strings.HasPrefix(t, "github.com/blues/jsonata-go") && strings.HasSuffix(t, ")"):
				fn := strings.TrimPrefix(t, "github.com/blues/jsonata-go")
				if j := strings.LastIndex(fn, "("); j > 0 {
					fn = fn[:j]
				}
				fns = append(fns, strings.TrimLeft(fn, "./"))
				inAccess = false
			}
		}
		if len(fns) == 2 {
			if fns[0] > fns[1] {
				fns[0], fns[1] = fns[1], fns[0]
			}
			k := "race-detector:" + fns[0] + " / " + fns[1]
			if _, ok := keys[k]; !ok {
				if len(blk) > 3000 {
					blk = blk[:3000]
				}
				keys[k] = "WARNING: DATA RACE" + blk
			}
		}
	}
	return keys
}

func c06RunRacePass(root string, iters int) (string, error) {
	cmd := exec.Command(filepath.Join(root, ".bin", "check-race"), "-racepass", strconv.Itoa(iters))
	cmd.Env = append(os.Environ(), "GORACE=halt_on_error=0 exitcode=0", "GOMAXPROCS=8")
	out, err := cmd.CombinedOutput()
	return string(out), err
}

func c06Post(env *explore.Env, res *explore.Result) {
	bin := filepath.Join(env.Root, ".bin", "check-race")
	if _, err := os.Stat(bin); err != nil {
		res.Extra["aux"] = "free-running -race pass skipped: " + bin + " not built"
		return
	}
	iters := 40
	if env.Tier == "thorough" {
		iters = 400
	}
	s, err := c06RunRacePass(env.Root, iters)
	races := strings.Count(s, "WARNING: DATA RACE")
	summary := ""
	for _, l := range strings.Split(s, "\n") {
		if strings.HasPrefix(l, "RACEPASS") {
			summary = l
		}
	}
	aux := map[string]interface{}{"pass": "free-running goroutines under go build -race (samples schedules; separate from the controlled scheduler, whose hand-offs would hide races from the detector). " +
		"A race it reports inside the library is a violation once a second, independent run of the pass reports the same pair of functions; absence of reports is never the basis of the verdict",
		"races_reported": races, "summary": summary}
	if err != nil {
		aux["error"] = err.Error()
	}
	res.Extra["aux"] = aux
	if races > 0 || (summary != "" && !strings.Contains(summary, "wrong_outcomes=0 ")) {
		os.MkdirAll(filepath.Join(env.Root, "replay", "C06"), 0o755)
		p := filepath.Join(env.Root, ".work", "C06-aux-race-report.txt")
		full := s
		if len(full) > 200000 {
			full = full[:200000]
		}
		os.WriteFile(p, []byte(full), 0o644)
		fmt.Printf("AUX-RACE-REPORT property=C06 races=%d %s (report: %s)\n", races, summary, p)
	}
	keys := c06RaceKeys(s)
	if len(keys) == 0 {
		return
	}
	// confirmation: an independent second run of the pass must report the same pair of library functions
	s2, _ := c06RunRacePass(env.Root, iters)
	keys2 := c06RaceKeys(s2)
	var confirmed []string
	for k := range keys {
		if _, ok := keys2[k]; ok {
			confirmed = append(confirmed, k)
		}
	}
	sort.Strings(confirmed)
	aux["races_confirmed_by_second_run"] = confirmed
	for _, k := range confirmed {
		res.Violations = append(res.Violations, &explore.Violation{Kind: "race-detector", Key: k, Phase: "aux-race-pass", Count: 1,
			Detail: explore.Detail{Program: "the C06 scenario bodies on free-running goroutines in a binary built with -race (" + summary + ")",
				Input: "thread inputs a=xAz / yBz / wCz", Expected: "no data race inside github.com/blues/jsonata-go",
				Observed: keys[k], Note: "reported by the Go race detector in two independent runs of the pass; replay re-runs the pass"}})
	}
}

// c06Replay re-runs the free-running pass for a recorded race-detector violation (other kinds: default replay).
func c06Replay(env *explore.Env, v *explore.Violation) int {
	if v.Kind != "race-detector" {
		return -1
	}
	hits := 0
	for rep := 0; rep < 2; rep++ {
		out, _ := c06RunRacePass(env.Root, 40)
		keys := c06RaceKeys(out)
		if blk, ok := keys[v.Key]; ok {
			hits++
			fmt.Printf("replay %d: reported again\n%s\n", rep+1, blk)
		} else {
			fmt.Printf("replay %d: not reported (%d other library races)\n", rep+1, len(keys))
		}
	}
	if hits > 0 {
		return 1
	}
	fmt.Println("not reproduced: the race pass reports no such race on the current tree")
	return 0
}

package props

import (
	"fmt"

	"verif/mc/explore"
	"verif/mc/impl"
	"verif/mc/ref"
)

// c13Items builds an array of objects {"id": i, "k": ..., "j": ...}; value
// index 0 of a domain means 'member missing'.
func c13Items(c *explore.Chooser, n int, kDomain, jDomain []interface{}) []interface{} {
	items := make([]interface{}, n)
	for i := range items {
		o := map[string]interface{}{"id": float64(i)}
		if v := kDomain[c.Choose(len(kDomain))]; v != nil {
			o["k"] = v
		}
		if jDomain != nil {
			if v := jDomain[c.Choose(len(jDomain))]; v != nil {
				o["j"] = v
			}
		}
		items[i] = o
	}
	return items
}

var c13Num = []interface{}{nil, 1.0, 2.0, 3.0}
var c13Str = []interface{}{nil, "a", "b", "B"}

type c13Key struct {
	name string
	node func() ref.Node
	num  bool // needs numeric members
}

var c13Keys = []c13Key{
	{"k", func() ref.Node { return rpath(rname("k")) }, false},
	{"j", func() ref.Node { return rpath(rname("j")) }, false},
	{"$.k", func() ref.Node { return &ref.Path{Steps: []ref.Node{rvar(""), rname("k")}, KeepAt: -1} }, false},
	{"k+j", func() ref.Node { return &ref.Bin{Op: "+", L: rpath(rname("k")), R: rpath(rname("j"))} }, true},
	{"-k", func() ref.Node { return &ref.Neg{X: rpath(rname("k"))} }, true},
	{`"c"`, func() ref.Node { return rstr("c") }, false},
}

var c13Dirs = []string{"", "<", ">"}

// c13DirectChecks verifies permutation, adjacent order and stability on the
// implementation's own result, independently of the reference sort.
func c13DirectChecks(items []interface{}, result interface{}, less func(a, b map[string]interface{}) int) string {
	var out []interface{}
	switch r := result.(type) {
	case []interface{}:
		out = r
	case impl.Undef:
	default:
		out = []interface{}{r}
	}
	if len(out) != len(items) {
		return fmt.Sprintf("a permutation of the %d input items (got %d)", len(items), len(out))
	}
	seen := map[float64]bool{}
	objs := make([]map[string]interface{}, len(out))
	for i, o := range out {
		m, ok := o.(map[string]interface{})
		if !ok {
			return "a list of the input objects"
		}
		id, _ := m["id"].(float64)
		if seen[id] {
			return "a permutation (an item appears twice)"
		}
		seen[id] = true
		objs[i] = m
	}
	for i := 1; i < len(objs); i++ {
		c := less(objs[i-1], objs[i])
		if c > 0 {
			return fmt.Sprintf("adjacent items in key order (positions %d,%d are not)", i-1, i)
		}
		if c == 0 && objs[i-1]["id"].(float64) > objs[i]["id"].(float64) {
			return fmt.Sprintf("items with equal keys in input order (positions %d,%d are not)", i-1, i)
		}
	}
	return ""
}

func c13CompareKeys(a, b interface{}) int {
	_, ua := a.(ref.Undef)
	_, ub := b.(ref.Undef)
	switch {
	case ua && ub:
		return 0
	case ua:
		return 1 // absent follows present
	case ub:
		return -1
	}
	if fa, ok := a.(float64); ok {
		fb := b.(float64)
		switch {
		case fa < fb:
			return -1
		case fa > fb:
			return 1
		}
		return 0
	}
	sa, sb := a.(string), b.(string)
	switch {
	case sa < sb:
		return -1
	case sa > sb:
		return 1
	}
	return 0
}

func init() {
	explore.Register(&explore.Prop{
		ID:        "C13",
		Title:     "Order-by and $sort return stable, correctly ordered permutations",
		Technique: "exhaustive enumeration of all small arrays of keyed objects x all sort specifications x directions, and of ALL two-valued key patterns of length 13..16 (every tie pattern beyond the insertion-sort threshold), with direct permutation/order/stability checks and a reference stable sort",
		Rule: "a case is one (array, sort specification) pair; items carry unique ids so permutation and tie order are observable; oracle: result is a permutation, adjacent pairs ordered by the key tuple " +
			"(absent last, per-term direction), equal tuples in input order, and equal to the reference stable sort; error classes for unsortable keys; non-trivial when at least two items are reordered or tied",
		Assumptions: []string{
			"arrays longer than 18 items and key domains larger than 4 values are outside the bound",
			"for $sort the error class of mixed/unsortable members is 'some error' (the statement does not name it)",
		},
		Phases: []explore.Phase{
			{Name: "order-by-small", Quick: []int{0, 1, 2, 3}, Thorough: []int{0, 1, 2, 3, 4}, ShardDepth: 5, Run: func(c *explore.Chooser, x *explore.Ctx, n int) {
				strs := c.Bool()
				dom := c13Num
				if strs {
					dom = c13Str
				}
				items := c13Items(c, n, dom, dom)
				nTerms := 1 + c.Choose(2)
				terms := make([]ref.SortTerm, nTerms)
				spec := ""
				for t := range terms {
					k := c13Keys[c.Choose(len(c13Keys))]
					if k.num && strs {
						k = c13Keys[0]
					}
					terms[t] = ref.SortTerm{Dir: c13Dirs[c.Choose(3)], Key: k.node()}
					spec += terms[t].Dir + k.name + " "
				}
				c.Done()
				c13Run(x, items, terms)
			}},
			{Name: "order-by-on-heads", Quick: []int{0, 1, 2, 3}, ShardDepth: 3, Run: func(c *explore.Chooser, x *explore.Ctx, n int) {
				// the sorted sequence under every head: the context variable, the root, a named variable, a
				// parenthesised path, each with and without a following step, on an array at the top
				items := c13Items(c, n, c13Num, c13Num)
				k := c13Keys[c.Choose(len(c13Keys))]
				dir := c13Dirs[c.Choose(3)]
				head := c.Choose(5)
				follow := c.Bool()
				c.Done()
				terms := []ref.SortTerm{{Dir: dir, Key: k.node()}}
				var input interface{} = items
				var node ref.Node
				mk := func(h ref.Node) ref.Node {
					srt := &ref.Sort{X: h, Terms: terms}
					if follow {
						return &ref.Path{Steps: []ref.Node{srt, rname("id")}, KeepAt: -1}
					}
					return srt
				}
				switch head {
				case 0:
					node = mk(rvar(""))
				case 1:
					node = mk(rvar("$"))
				case 2:
					node = &ref.Paren{Exprs: []ref.Node{&ref.Assign{Name: "v", Val: rvar("")}, mk(rvar("v"))}}
				case 3:
					node = mk(&ref.Paren{Exprs: []ref.Node{rvar("")}})
				default:
					input = map[string]interface{}{"a": items}
					node = mk(rpath(rname("a")))
				}
				prog := ref.Text(node)
				want, werr := ref.Eval(node, input, ref.NewEnv(input))
				got := checkRef(x, prog, input, want, werr)
				x.Outcome(got.Short())
				if got.Kind == impl.Value {
					x.Nontrivial()
				}
			}},
			{Name: "order-by-three-terms", Thorough: []int{3}, ShardDepth: 5, Run: func(c *explore.Chooser, x *explore.Ctx, n int) {
				items := c13Items(c, n, c13Num, c13Num)
				terms := make([]ref.SortTerm, 3)
				for t := range terms {
					terms[t] = ref.SortTerm{Dir: c13Dirs[c.Choose(3)], Key: c13Keys[c.Choose(len(c13Keys))].node()}
				}
				c.Done()
				c13Run(x, items, terms)
			}},
			{Name: "stability-long", Quick: []int{13, 14}, Thorough: []int{13, 14, 15, 16, 17, 18}, ShardDepth: 8, Run: func(c *explore.Chooser, x *explore.Ctx, n int) {
				// all 2^n tie patterns: beyond 12 items an unstable library sort stops being accidentally stable
				items := make([]interface{}, n)
				for i := range items {
					items[i] = map[string]interface{}{"id": float64(i), "k": float64(1 + c.Choose(2))}
				}
				form := c.Choose(4)
				c.Done()
				kk := func() ref.Node { return rpath(rname("k")) }
				switch form {
				case 0:
					c13Run(x, items, []ref.SortTerm{{Key: kk()}})
				case 1:
					c13Run(x, items, []ref.SortTerm{{Dir: ">", Key: kk()}})
				case 2:
					c13Run(x, items, []ref.SortTerm{{Key: kk()}, {Key: rstr("c")}})
				default:
					c13SortFn(x, items, `function($x,$y){$x.k > $y.k}`, false)
				}
			}},
			{Name: "order-by-errors", Quick: []int{1, 2, 3}, Thorough: []int{1, 2, 3, 4}, ShardDepth: 4, Run: func(c *explore.Chooser, x *explore.Ctx, n int) {
				strs := c.Bool()
				dom := c13Num
				if strs {
					dom = c13Str
				}
				items := c13Items(c, n, dom, nil)
				bad := []interface{}{true, []interface{}{1.0}, map[string]interface{}{}, "s", 7.0}[c.Choose(5)]
				pos := c.Choose(n)
				dir := c13Dirs[c.Choose(3)]
				c.Done()
				items[pos].(map[string]interface{})["k"] = bad
				c13Run(x, items, []ref.SortTerm{{Dir: dir, Key: rpath(rname("k"))}})
			}},
			{Name: "sort-function", Quick: []int{0, 1, 2, 3, 4, 5}, Thorough: []int{0, 1, 2, 3, 4, 5, 6}, ShardDepth: 4, Run: func(c *explore.Chooser, x *explore.Ctx, n int) {
				kind := c.Choose(3) // numbers, strings, one foreign member
				arr := make([]interface{}, n)
				for i := range arr {
					if kind == 1 {
						arr[i] = []interface{}{"a", "b", "B"}[c.Choose(3)]
					} else {
						arr[i] = []interface{}{1.0, 2.0, 3.0}[c.Choose(3)]
					}
				}
				if kind == 2 && n > 0 {
					arr[c.Choose(n)] = []interface{}{"x", true, []interface{}{1.0}, map[string]interface{}{}}[c.Choose(4)]
				}
				c.Done()
				doc := map[string]interface{}{"a": arr}
				if kind == 2 && n > 0 {
					if n == 1 {
						c16Expect(x, "$sort(a)", doc, nil, false, false) // a single member is not an array here
						return
					}
					c16Expect(x, "$sort(a)", doc, nil, true, true)
					return
				}
				want := append([]interface{}{}, arr...)
				for i := 1; i < len(want); i++ { // insertion sort
					for j := i; j > 0 && c13CompareKeys(want[j], want[j-1]) < 0; j-- {
						want[j], want[j-1] = want[j-1], want[j]
					}
				}
				var w interface{} = want
				if n == 0 {
					w = ref.U // the path a selects nothing from an empty array
				}
				got := c16Expect(x, "$sort(a)", doc, w, false, true)
				x.Outcome(got.Short())
				if n > 1 {
					x.Nontrivial()
				}
			}},
			{Name: "sort-comparator", Quick: []int{0, 1, 2, 3, 4}, Thorough: []int{0, 1, 2, 3, 4, 5}, ShardDepth: 4, Run: func(c *explore.Chooser, x *explore.Ctx, n int) {
				items := c13Items(c, n, c13Num[1:], c13Num[1:])
				cmp := c.Choose(5)
				c.Done()
				switch cmp {
				case 0:
					c13SortFn(x, items, `function($x,$y){$x.k > $y.k}`, false)
				case 1:
					c13SortFn(x, items, `function($x,$y){$x.k < $y.k}`, false)
				case 2:
					c13SortFn(x, items, `function($x,$y){$x.k > $y.k or ($x.k = $y.k and $x.j > $y.j)}`, false)
				case 3:
					c13SortFn(x, items, `function($x,$y){$x.k - $y.k}`, true) // a comparator that does not return a boolean
				default:
					c13SortFn(x, items, `function($x,$y){false}`, false)
				}
			}},
		},
	})
}

// c13Run evaluates a^(terms) and checks it against the reference and directly.
func c13Run(x *explore.Ctx, items []interface{}, terms []ref.SortTerm) {
	n := &ref.Sort{X: rpath(rname("a")), Terms: terms}
	prog := ref.Text(n)
	doc := map[string]interface{}{"a": items}
	var input interface{} = doc
	want, werr := ref.Eval(n, input, ref.NewEnv(input))
	got := checkRef(x, prog, input, want, werr)
	x.Outcome(got.Short())
	if werr == nil && got.Kind == impl.Value {
		// direct checks on the implementation's own result
		env := ref.NewEnv(input)
		keyOf := func(m map[string]interface{}, t int) interface{} {
			v, _ := ref.Eval(terms[t].Key, m, env)
			return v
		}
		why := c13DirectChecks(items, got.Val, func(a, b map[string]interface{}) int {
			for t := range terms {
				c := c13CompareKeys(keyOf(a, t), keyOf(b, t))
				_, ua := keyOf(a, t).(ref.Undef)
				_, ub := keyOf(b, t).(ref.Undef)
				if c != 0 && terms[t].Dir == ">" && !ua && !ub {
					c = -c
				}
				if c != 0 {
					return c
				}
			}
			return 0
		})
		if why != "" {
			in := jsonText(doc)
			x.Violation("value", "direct:"+prog+"|"+in, explore.Detail{Program: prog, Input: in, Expected: why, Observed: got.String()})
		}
		if len(items) > 1 {
			x.Nontrivial()
		}
	}
	x.Sample(func() string { return prog + " on " + jsonText(doc) })
}

// c13SortFn checks $sort(a, f) for a comparator f (true: x goes after y).
func c13SortFn(x *explore.Ctx, items []interface{}, cmp string, wantErr bool) {
	doc := map[string]interface{}{"a": items}
	prog := "$sort(a, " + cmp + ")"
	if wantErr && len(items) > 1 {
		c16Expect(x, prog, doc, nil, true, true)
		return
	}
	if wantErr {
		c16Expect(x, prog, doc, nil, false, false)
		return
	}
	after := func(a, b map[string]interface{}) bool {
		ka, kb := a["k"].(float64), b["k"].(float64)
		switch cmp {
		case `function($x,$y){$x.k > $y.k}`:
			return ka > kb
		case `function($x,$y){$x.k < $y.k}`:
			return ka < kb
		case `function($x,$y){false}`:
			return false
		}
		ja, jb := a["j"].(float64), b["j"].(float64)
		return ka > kb || (ka == kb && ja > jb)
	}
	want := append([]interface{}{}, items...)
	for i := 1; i < len(want); i++ { // stable insertion sort: move left while the left neighbour goes after
		for j := i; j > 0 && after(want[j-1].(map[string]interface{}), want[j].(map[string]interface{})); j-- {
			want[j], want[j-1] = want[j-1], want[j]
		}
	}
	var w interface{} = want
	switch len(items) {
	case 0:
		w = ref.U
	}
	got := c16Expect(x, prog, doc, w, false, true)
	x.Outcome(got.Short())
	if len(items) > 1 {
		x.Nontrivial()
	}
}

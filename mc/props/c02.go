package props

import (
	"math"

	"verif/mc/explore"
	"verif/mc/impl"
	"verif/mc/ref"
)

type c02Pred struct {
	src  string
	node func() ref.Node
}

func rp(names ...string) ref.Node {
	steps := make([]ref.Node, len(names))
	for i, n := range names {
		steps[i] = rname(n)
	}
	return rpath(steps...)
}

var c02Preds = []c02Pred{
	{"b", func() ref.Node { return rp("b") }},
	{"b=1", func() ref.Node { return &ref.Bin{Op: "=", L: rp("b"), R: rnum(1)} }},
	{`b="x"`, func() ref.Node { return &ref.Bin{Op: "=", L: rp("b"), R: rstr("x")} }},
	{`b=1 or a="x"`, func() ref.Node {
		return &ref.Bin{Op: "or", L: &ref.Bin{Op: "=", L: rp("b"), R: rnum(1)}, R: &ref.Bin{Op: "=", L: rp("a"), R: rstr("x")}}
	}},
	{"b and a", func() ref.Node { return &ref.Bin{Op: "and", L: rp("b"), R: rp("a")} }},
	{`"s"`, func() ref.Node { return rstr("s") }},
	{`""`, func() ref.Node { return rstr("") }},
	{"{}", func() ref.Node { return &ref.Obj{} }},
	{`{"k":1}`, func() ref.Node { return robj("k", rnum(1)) }},
	{"[]", func() ref.Node { return &ref.Arr{} }},
	{"nothing", func() ref.Node { return rp("nothing") }},
	{"$", func() ref.Node { return rvar("") }},
	{"true", func() ref.Node { return &ref.Lit{Val: true, Src: "true"} }},
	{"false", func() ref.Node { return &ref.Lit{Val: false, Src: "false"} }},
	{"b.a", func() ref.Node { return rp("b", "a") }},
	{"$count(b)", func() ref.Node { return rcall("count", rp("b")) }},
	{`[0,"a"]`, func() ref.Node { return &ref.Arr{Items: []ref.Node{rnum(0), rstr("a")}} }},
	{"0", func() ref.Node { return rnum(0) }},
	{"1", func() ref.Node { return rnum(1) }},
	{"(-1)", func() ref.Node { return &ref.Lit{Val: -1.0, Src: "(-1)"} }},
	{"[0,1]", func() ref.Node { return &ref.Arr{Items: []ref.Node{rnum(0), rnum(1)}} }},
	{"0.5", func() ref.Node { return rnum(0.5) }},
	{"$$.a", func() ref.Node { return &ref.Path{Steps: []ref.Node{rvar("$"), rname("a")}, KeepAt: -1} }},
	{"a=1", func() ref.Node { return &ref.Bin{Op: "=", L: rp("a"), R: rnum(1)} }},
	{"b>1", func() ref.Node { return &ref.Bin{Op: ">", L: rp("b"), R: rnum(1)} }}, // an error on items whose b is a string
	{"$>0", func() ref.Node { return &ref.Bin{Op: ">", L: rvar(""), R: rnum(0)} }},
}

// c02Heads: shape h applied to filters f...: name steps accumulate filters on one
// predicate (survivors filtered as they are); other heads nest predicates.
func c02Head(h int, fs []ref.Node) ref.Node {
	nested := func(x ref.Node) ref.Node {
		for _, f := range fs {
			x = &ref.Pred{X: x, Filters: []ref.Node{f}}
		}
		return x
	}
	onName := func(n string) ref.Node { return &ref.Pred{X: rname(n), Filters: fs} }
	switch h {
	case 0: // a[p]
		return rpath(onName("a"))
	case 1: // a[p].b
		return rpath(onName("a"), rname("b"))
	case 2: // a.b[p]
		return rpath(rname("a"), onName("b"))
	case 3: // (a.b)[p]
		return nested(&ref.Paren{Exprs: []ref.Node{rp("a", "b")}})
	case 4: // ($v := a; $v[p])
		return &ref.Paren{Exprs: []ref.Node{&ref.Assign{Name: "v", Val: rp("a")}, nested(rvar("v"))}}
	case 5: // [a, b][p]
		return nested(&ref.Arr{Items: []ref.Node{rp("a"), rp("b")}})
	case 6: // $append(a, b)[p]
		return nested(rcall("append", rp("a"), rp("b")))
	case 7: // $[p]
		return nested(rvar(""))
	case 8: // $$.a[p]
		return &ref.Path{Steps: []ref.Node{rvar("$"), onName("a")}, KeepAt: -1}
	case 9: // a[p][] keep-array marker
		return &ref.Path{Steps: []ref.Node{onName("a")}, Keep: true, KeepAt: -1}
	case 10: // a.[b, a][p]: a predicate on an array-constructor step that is not the first step
		return rpath(rname("a"), nested(&ref.Arr{Items: []ref.Node{rp("b"), rp("a")}}))
	case 11: // a.(b)[p]: on a parenthesised step
		return rpath(rname("a"), nested(&ref.Paren{Exprs: []ref.Node{rp("b")}}))
	case 12: // $[p].a: predicates on the context variable, followed by a step
		return &ref.Path{Steps: []ref.Node{nested(rvar("")), rname("a")}, KeepAt: -1}
	case 13: // (a)[p].b: a parenthesised step with predicates at the head of a longer path (mapped over an array context)
		return rpath(nested(&ref.Paren{Exprs: []ref.Node{rp("a")}}), rname("b"))
	default: // ($v := $; $v[p].a): on a named variable, followed by a step
		return &ref.Paren{Exprs: []ref.Node{&ref.Assign{Name: "v", Val: rvar("")}, &ref.Path{Steps: []ref.Node{nested(rvar("v")), rname("a")}, KeepAt: -1}}}
	}
}

const c02NumHeads = 15

func c02SpecialDocs() []interface{} {
	o := func(kv ...interface{}) map[string]interface{} {
		m := map[string]interface{}{}
		for i := 0; i < len(kv); i += 2 {
			m[kv[i].(string)] = kv[i+1]
		}
		return m
	}
	return []interface{}{
		o("a", []interface{}{o("b", 1.0), o("a", "x"), o("b", 2.0, "a", "x"), o()}),                 // members missing in some elements
		o("a", []interface{}{[]interface{}{1.0}}, "b", 1.0),                                         // arr[o] on an array of arrays
		o("a", []interface{}{[]interface{}{o("b", 1.0), o("b", 2.0)}, []interface{}{o("b", 1.0)}}),  // arrays nested in arrays
		o("a", o("b", []interface{}{o("a", 1.0), o("a", 2.0), o("a", 3.0)})),                        // b.a inside
		o("a", []interface{}{o("b", []interface{}{10.0, 20.0, 30.0}), o("b", []interface{}{40.0})}), // per-item positions
		o("a", []interface{}{1.0, 2.0, 3.0}, "b", []interface{}{0.0, 2.0}),                          // index array from the document
		[]interface{}{o("a", []interface{}{1.0, 2.0}), o("a", []interface{}{3.0})},                  // array input
		o("a", []interface{}{o("b", o("a", 1.0)), o("b", o("a", 0.0)), o("b", "x")}),
		o("a", []interface{}{o("b", 1.0, "a", 1.0), o("b", "x", "a", "x"), o("b", 3.0, "a", 1.0)}), // members of different kinds in different elements
		o("a", []interface{}{o("b", 1.0, "a", 2.0), o("b", 3.0, "a", 4.0)}),
		[]interface{}{o("a", 1.0, "b", 1.0), o("a", 2.0, "b", "x"), o("a", 3.0, "b", 1.0)}, // an array at the top: anchored heads do not map over it
	}
}

func init() {
	explore.Register(&explore.Prop{
		ID:        "C02",
		Title:     "Predicates filter by truth value or select by position, per context item",
		Technique: "exhaustive enumeration of index arithmetic (all lengths 0..5 x positions -7..7 step 0.5 x head shapes, all pairs of integer positions) and of 23 predicate expressions stacked up to 3 deep on 10 head shapes x all documents of depth <=2 plus shaped documents, against a reference predicate rule",
		Rule: "a case is one (head shape, predicate stack, document) tuple; oracle: the reference rule (per-item evaluation; number or all-number array -> positions floor(n), negative from the end; otherwise boolean cast; " +
			"filters accumulated on field-name steps, nested on other heads; normalisation as for paths); non-trivial when something is kept",
		Assumptions: []string{
			"an index array that selects the same position twice is not settled by the statement (the port keeps the item twice): totality only",
			"predicates stacked deeper than 3 and arrays longer than 5 are outside the bound",
		},
		Phases: []explore.Phase{
			{Name: "index-arithmetic", Quick: []int{0, 1, 2, 3, 4, 5}, ShardDepth: 2, Run: func(c *explore.Chooser, x *explore.Ctx, n int) {
				arr := make([]interface{}, n)
				for i := range arr {
					arr[i] = float64(10 * (i + 1))
				}
				p := -7 + 0.5*float64(c.Choose(29))
				head := c.Choose(6)
				c.Done()
				doc := map[string]interface{}{"x": arr, "idx": p}
				lit := &ref.Lit{Val: p, Src: "(" + ref.NumString(p) + ")"}
				if head == 0 || head == 5 {
					lit = &ref.Lit{Val: p, Src: ref.NumString(p)} // a bare (negative) number literal
				}
				var node ref.Node
				switch head {
				case 0:
					node = rpath(&ref.Pred{X: rname("x"), Filters: []ref.Node{lit}})
				case 1:
					node = &ref.Path{Steps: []ref.Node{rvar("$"), &ref.Pred{X: rname("x"), Filters: []ref.Node{lit}}}, KeepAt: -1}
				case 2:
					node = &ref.Pred{X: &ref.Paren{Exprs: []ref.Node{rp("x")}}, Filters: []ref.Node{lit}}
				case 3:
					node = &ref.Paren{Exprs: []ref.Node{&ref.Assign{Name: "v", Val: rp("x")}, &ref.Pred{X: rvar("v"), Filters: []ref.Node{lit}}}}
				case 4: // the position computed from the document
					node = rpath(&ref.Pred{X: rname("x"), Filters: []ref.Node{&ref.Path{Steps: []ref.Node{rvar("$"), rname("idx")}, KeepAt: -1}}})
				default: // literal array head
					items := make([]ref.Node, n)
					for i := range items {
						items[i] = rnum(float64(10 * (i + 1)))
					}
					node = &ref.Pred{X: &ref.Arr{Items: items}, Filters: []ref.Node{lit}}
				}
				// harness self-check of the reference against plain arithmetic
				want, werr := ref.Eval(node, interface{}(doc), ref.NewEnv(interface{}(doc)))
				idx := int(math.Floor(p))
				if idx < 0 {
					idx += n
				}
				var direct interface{} = ref.U
				if idx >= 0 && idx < n {
					direct = arr[idx]
				}
				if werr != nil || !impl.Equal(ref.Norm(want), ref.Norm(direct)) {
					panic("c02: reference predicate rule disagrees with index arithmetic for " + ref.Text(node))
				}
				c01Compare(x, node, doc, false)
			}},
			{Name: "index-pairs", Quick: []int{0, 1, 2, 3, 4, 5}, ShardDepth: 2, Run: func(c *explore.Chooser, x *explore.Ctx, n int) {
				arr := make([]interface{}, n)
				for i := range arr {
					arr[i] = float64(10 * (i + 1))
				}
				p, q := float64(c.Range(-6, 6)), float64(c.Range(-6, 6))
				fromDoc := c.Bool()
				c.Done()
				doc := map[string]interface{}{"x": arr, "idx": []interface{}{p, q}}
				var f ref.Node = &ref.Arr{Items: []ref.Node{&ref.Lit{Val: p, Src: "(" + ref.NumString(p) + ")"}, &ref.Lit{Val: q, Src: "(" + ref.NumString(q) + ")"}}}
				if fromDoc {
					f = &ref.Path{Steps: []ref.Node{rvar("$"), rname("idx")}, KeepAt: -1}
				}
				c01Compare(x, rpath(&ref.Pred{X: rname("x"), Filters: []ref.Node{f}}), doc, false)
			}},
			{Name: "filters", Quick: []int{1, 2}, Thorough: []int{1, 2, 3}, ShardDepth: 1, Run: func(c *explore.Chooser, x *explore.Ctx, depth int) {
				docs := append(append([]interface{}{}, c02SpecialDocs()...), c01Docs()...)
				di := c.Choose(len(docs))
				fs := make([]ref.Node, depth)
				for i := range fs {
					fs[i] = c02Preds[c.Choose(len(c02Preds))].node()
				}
				head := c.Choose(c02NumHeads)
				c.Done()
				nSpecial := len(c02SpecialDocs())
				if depth >= 2 && !x.Thorough() && di >= nSpecial && di%5 != head%5 {
					return // quick tier: a fifth of the generic documents per head for stacked predicates
				}
				if depth >= 3 && di >= nSpecial && di%7 != 0 {
					return
				}
				c01Compare(x, c02Head(head, fs), docs[di], false)
			}},
		},
	})
}

package props

import (
	"fmt"
	"github.com/blues/jsonata-go/verifhook"
	"regexp"
	"strings"
	"time"

	jsonata "github.com/blues/jsonata-go"

	"verif/mc/explore"
	"verif/mc/impl"
)

// ---- independent civil calendar (days-from-civil / civil-from-days) ---------

func daysFromCivil(y, m, d int) int {
	if m <= 2 {
		y--
	}
	era := y / 400
	if y < 0 {
		era = (y - 399) / 400
	}
	yoe := y - era*400
	mp := (m + 9) % 12
	doy := (153*mp+2)/5 + d - 1
	doe := yoe*365 + yoe/4 - yoe/100 + doy
	return era*146097 + doe - 719468
}

func civilFromDays(z int) (y, m, d int) {
	z += 719468
	era := z / 146097
	if z < 0 {
		era = (z - 146096) / 146097
	}
	doe := z - era*146097
	yoe := (doe - doe/1460 + doe/36524 - doe/146096) / 365
	y = yoe + era*400
	doy := doe - (365*yoe + yoe/4 - yoe/100)
	mp := (5*doy + 2) / 153
	d = doy - (153*mp+2)/5 + 1
	m = mp + 3
	if m > 12 {
		m -= 12
	}
	if m <= 2 {
		y++
	}
	return
}

// weekday: 0 = Sunday; 1970-01-01 (day 0) was a Thursday.
func weekdayOf(z int) int { return ((z % 7) + 7 + 4) % 7 }

func isoWeek(z int) int {
	// ISO weekday 1..7 (Monday = 1); the week belongs to the year of its Thursday
	wd := (weekdayOf(z)+6)%7 + 1
	thursday := z - wd + 4
	y, _, _ := civilFromDays(thursday)
	return (thursday-daysFromCivil(y, 1, 1))/7 + 1
}

var c19Months = []string{"", "January", "February", "March", "April", "May", "June", "July", "August", "September", "October", "November", "December"}
var c19Days = []string{"Sunday", "Monday", "Tuesday", "Wednesday", "Thursday", "Friday", "Saturday"}

func ordinal(n int) string {
	suf := "th"
	if n%100 < 11 || n%100 > 13 {
		switch n % 10 {
		case 1:
			suf = "st"
		case 2:
			suf = "nd"
		case 3:
			suf = "rd"
		}
	}
	return fmt.Sprintf("%d%s", n, suf)
}

type c19Fields struct {
	y, mo, d, yday, wday, week, h, mi, s, ms int
	offMin                                   int
}

func c19Decompose(ms int64, offMin int) c19Fields {
	local := ms + int64(offMin)*60000
	day := local / 86400000
	rem := local % 86400000
	if rem < 0 {
		rem += 86400000
		day--
	}
	z := int(day)
	y, mo, d := civilFromDays(z)
	return c19Fields{y: y, mo: mo, d: d, yday: z - daysFromCivil(y, 1, 1) + 1, wday: weekdayOf(z), week: isoWeek(z),
		h: int(rem / 3600000), mi: int(rem / 60000 % 60), s: int(rem / 1000 % 60), ms: int(rem % 1000), offMin: offMin}
}

func offsetText(offMin int, sep string) string {
	sign := "+"
	if offMin < 0 {
		sign = "-"
		offMin = -offMin
	}
	return fmt.Sprintf("%s%02d%s%02d", sign, offMin/60, sep, offMin%60)
}

func tzArg(offMin int) string { return offsetText(offMin, "") }

const c19Composite = "[Y0001]|[M01]|[D01]|[d]|[FNn]|[W]|[H01]|[h]|[P]|[m01]|[s01]|[f001]|[Z]|[z]|[MNn]|[D1o]|[Y]|[M]|[D]|[H]|[m]|[s]|[FNn,3-3]|[MNn,3-3]|[MN]|[Fn]|[PN]|[Z0101]|[d1o]|[Y01]"

func (f c19Fields) composite() string {
	h12 := (f.h+11)%12 + 1
	ampm := "am"
	if f.h >= 12 {
		ampm = "pm"
	}
	parts := []string{
		fmt.Sprintf("%04d", f.y), fmt.Sprintf("%02d", f.mo), fmt.Sprintf("%02d", f.d), fmt.Sprint(f.yday), c19Days[f.wday], fmt.Sprint(f.week),
		fmt.Sprintf("%02d", f.h), fmt.Sprint(h12), ampm, fmt.Sprintf("%02d", f.mi), fmt.Sprintf("%02d", f.s), fmt.Sprintf("%03d", f.ms),
		offsetText(f.offMin, ":"), "GMT" + offsetText(f.offMin, ":"), c19Months[f.mo], ordinal(f.d),
		fmt.Sprint(f.y), fmt.Sprint(f.mo), fmt.Sprint(f.d), fmt.Sprint(f.h), fmt.Sprintf("%02d", f.mi), fmt.Sprintf("%02d", f.s),
		c19Days[f.wday][:3], c19Months[f.mo][:3], strings.ToUpper(c19Months[f.mo]), strings.ToLower(c19Days[f.wday]), strings.ToUpper(ampm),
		offsetText(f.offMin, ""), ordinal(f.yday), fmt.Sprintf("%02d", f.y%100),
	}
	return strings.Join(parts, "|")
}

func c19Check(x *explore.Ctx, prog string, doc map[string]interface{}, want interface{}, wantErr bool) impl.Outcome {
	return c16Expect(x, prog, doc, want, wantErr, true)
}

var c19Lo, c19Hi = daysFromCivil(1000, 1, 1), daysFromCivil(9999, 12, 31)

var reOffset = regexp.MustCompile(`^[+-][0-9]{4}$`)

func init() {
	// harness self-check: the two calendars agree (Go's time package is only a second opinion)
	for _, z := range []int{c19Lo, -1, 0, 1, 11016, 17612, daysFromCivil(2000, 2, 29), daysFromCivil(2262, 4, 12), c19Hi} {
		y, m, d := civilFromDays(z)
		t := time.Unix(int64(z)*86400, 0).UTC()
		_, w := t.ISOWeek()
		if t.Year() != y || int(t.Month()) != m || t.Day() != d || int(t.Weekday()) != weekdayOf(z) || w != isoWeek(z) {
			panic(fmt.Sprintf("c19: civil calendar self-check failed at day %d", z))
		}
	}
	times := []int64{0, 12 * 3600000, 86399999}
	fieldRun := func(c *explore.Chooser, x *explore.Ctx, z int) {
		tod := times[c.Choose(len(times))]
		off := []int{0, 330, -480}[c.Choose(3)]
		c.Done()
		ms := int64(z)*86400000 + tod
		f := c19Decompose(ms, off)
		if f.y < 1000 || f.y > 9999 {
			return
		}
		doc := map[string]interface{}{"ms": float64(ms), "tz": tzArg(off)}
		prog := `$fromMillis(ms, "` + c19Composite + `", tz)`
		if off == 0 && tod == 0 {
			prog = `$fromMillis(ms, "` + c19Composite + `")`
		}
		got := c19Check(x, prog, doc, f.composite(), false)
		x.Outcome(got.Short())
		x.Nontrivial()
		x.Sample(func() string { return prog + " on " + jsonText(doc) })
	}
	special := []int{1000, 1582, 1583, 1600, 1700, 1900, 1969, 1970, 2000, 2004, 2020, 2038, 2100, 2262, 2263, 4000, 9998, 9999}
	explore.Register(&explore.Prop{
		ID:        "C19",
		Title:     "$fromMillis renders the right calendar fields and $toMillis inverts it",
		Technique: "exhaustive sweep of the day line 1000-01-01..9999-12-31 (every day in the thorough tier) x times of day x offsets against an independent integer civil-calendar, all 113 quarter-hour offsets on boundary days, the inverse law through default and explicit pictures, enumerated malformed pictures/offsets, and the one-clock-per-evaluation relations",
		Rule: "a case is one (instant, offset, picture) tuple; oracle: fields computed by days-from-civil arithmetic (ISO week by the Thursday rule), English names, 12-hour clock 12,1..11; " +
			"$toMillis($fromMillis(ms, pic, tz)) = ms; non-trivial when a string is rendered",
		Assumptions: []string{
			"[F1] day-of-week numbering, [w] week of month and the default width of [f] are not fixed by the statement and are not compared",
			"instants are enumerated at day granularity with 3 times of day (plus all hours on boundary days), not every millisecond",
			"the clock bracket compares with the caller's wall clock at millisecond resolution",
		},
		Phases: []explore.Phase{
			{Name: "fields-special-years", Quick: []int{1}, ShardDepth: 2, Run: func(c *explore.Chooser, x *explore.Ctx, _ int) {
				y := special[c.Choose(len(special))]
				doy := c.Choose(366)
				z := daysFromCivil(y, 1, 1) + doy
				if z > c19Hi {
					z = c19Hi
				}
				fieldRun(c, x, z)
			}},
			{Name: "fields-every-nth-year", Quick: []int{11}, Run: func(c *explore.Chooser, x *explore.Ctx, step int) {
				y := 1000 + step*c.Choose(9000/step)
				doy := c.Choose(366)
				fieldRun(c, x, daysFromCivil(y, 1, 1)+doy)
			}},
			{Name: "fields-every-day", Thorough: []int{1}, Run: func(c *explore.Chooser, x *explore.Ctx, _ int) {
				z := c19Lo + c.Choose(c19Hi-c19Lo+1)
				fieldRun(c, x, z)
			}},
			{Name: "hours-and-offsets", Quick: []int{1}, Run: func(c *explore.Chooser, x *explore.Ctx, _ int) {
				days := [][3]int{{1000, 1, 1}, {1582, 10, 15}, {1600, 2, 29}, {1900, 2, 28}, {1900, 3, 1}, {1969, 12, 31}, {1970, 1, 1}, {1999, 12, 31}, {2000, 2, 29}, {2004, 12, 31},
					{2009, 12, 31}, {2010, 1, 3}, {2015, 12, 31}, {2020, 12, 31}, {2021, 1, 3}, {2024, 2, 29}, {2026, 12, 28}, {2038, 1, 19}, {2262, 4, 11}, {2262, 4, 12}, {9999, 12, 30}, {9999, 12, 31}}
				d := days[c.Choose(len(days))]
				h := c.Choose(24)
				mi := []int{0, 59}[c.Choose(2)]
				off := -840 + 15*c.Choose(113)
				c.Done()
				ms := int64(daysFromCivil(d[0], d[1], d[2]))*86400000 + int64(h)*3600000 + int64(mi)*60000 + 999
				f := c19Decompose(ms, off)
				if u := c19Decompose(ms, 0); u.y < 1000 || u.y > 9999 {
					return
				}
				// the instant lies in the years 1000..9999; under an offset its local year can be 999 or 10000
				doc := map[string]interface{}{"ms": float64(ms), "tz": tzArg(off)}
				if f.y > 9999 {
					// one finding for the whole class (every instant of the last 14 hours of 9999 under a positive offset)
					got := impl.Run(`$toMillis($fromMillis(ms, (), tz)) = ms`, doc)
					x.Eval()
					x.Validated()
					if !(got.Kind == impl.Value && got.Val == true) {
						x.Violation("value", "inverse-default:local-year-10000", explore.Detail{Program: `$toMillis($fromMillis(ms, (), tz)) = ms`, Input: jsonText(doc),
							Expected: "value true", Observed: got.String(), Note: "the default picture writes the local year 10000 with five digits, which $toMillis does not read back"})
					}
					return
				}
				if f.y < 1000 {
					c19Check(x, `$toMillis($fromMillis(ms, (), tz)) = ms`, doc, true, false)
					if f.y < 1000 {
						c19Check(x, `$fromMillis(ms, (), tz)`, doc, fmt.Sprintf("%04d-%02d-%02dT%02d:%02d:%02d.%03d%s", f.y, f.mo, f.d, f.h, f.mi, f.s, f.ms, isoOffset(off)), false)
					}
					return
				}
				got := c19Check(x, `$fromMillis(ms, "`+c19Composite+`", tz)`, doc, f.composite(), false)
				c19Check(x, `$toMillis($fromMillis(ms, (), tz)) = ms`, doc, true, false)
				c19Check(x, `$fromMillis(ms, (), tz)`, doc, fmt.Sprintf("%04d-%02d-%02dT%02d:%02d:%02d.%03d%s", f.y, f.mo, f.d, f.h, f.mi, f.s, f.ms, isoOffset(off)), false)
				x.Outcome(got.Short())
				x.Nontrivial()
			}},
			{Name: "inverse-special-years", Quick: []int{1}, Run: func(c *explore.Chooser, x *explore.Ctx, _ int) {
				y := special[c.Choose(len(special))]
				z := daysFromCivil(y, 1, 1) + c.Choose(366)
				if z > c19Hi {
					z = c19Hi
				}
				c19Inverse(c, x, z)
			}},
			{Name: "inverse-every-day", Thorough: []int{1}, Run: func(c *explore.Chooser, x *explore.Ctx, _ int) {
				c19Inverse(c, x, c19Lo+c.Choose(c19Hi-c19Lo+1))
			}},
			{Name: "inverse-picture-shapes", Quick: []int{1}, ShardDepth: -1, Run: func(c *explore.Chooser, x *explore.Ctx, _ int) {
				// pictures built from the statement's components in other arrangements: no separators, other
				// separators, another order. One finding per picture (keyed by the picture).
				pics := []string{
					"[Y0001][M01][D01][H01][m01][s01][f001]",
					"[Y0001][M01][D01]T[H01][m01][s01].[f001]",
					"[Y0001]-[M01]-[D01] [H01]:[m01]:[s01]:[f001]",
					"[Y0001]-[M01]-[D01] [H01]:[m01]:[s01] [f001]",
					"[Y0001]/[M01]/[D01] [H01].[m01].[s01],[f001]",
					"[H01]:[m01]:[s01].[f001] [D01]-[M01]-[Y0001]",
					"[D01].[M01].[Y0001] [H01]:[m01]:[s01]",
					"[Y0001][M01][D01][H01][m01][s01]",
					"[Y0001]-[M01]-[D01]T[H01]:[m01]:[s01].[f001][Z01:01]",
					"[s01].[m01].[H01] [D01].[M01].[Y0001]",
					"[H01]:[m01]:[s01].[f001][D01]/[M01]/[Y0001]",
					"[m01],[s01] [H01] [Y0001][M01][D01]",
				}
				pic := pics[c.Choose(len(pics))]
				ms := []int64{1521801216617, 86399999, 253402300799999, -30610224000000 + 1, 1000}[c.Choose(5)]
				c.Done()
				if !strings.Contains(pic, "[f001]") {
					ms -= ((ms % 1000) + 1000) % 1000 // whole seconds without [f001]
				}
				doc := map[string]interface{}{"ms": float64(ms), "p": pic}
				got := impl.Run(`$toMillis($fromMillis(ms, p), p) = ms`, doc)
				x.Eval()
				x.Validated()
				if !(got.Kind == impl.Value && got.Val == true) {
					x.Violation("value", "inverse-picture:"+pic, explore.Detail{Program: `$toMillis($fromMillis(ms, p), p) = ms`, Input: jsonText(doc), Expected: "value true", Observed: got.String()})
				}
				x.Nontrivial()
				x.Outcome(got.Short())
			}},
			{Name: "malformed", Quick: []int{0, 1, 2, 3, 4}, Thorough: []int{0, 1, 2, 3, 4, 5}, Run: func(c *explore.Chooser, x *explore.Ctx, n int) {
				if c.Bool() {
					pic := c16StringN(c, n, []string{"[", "]", "Y", "Q", "0", "1", ",", "-", "*", "x"})
					c.Done()
					bad, known := c19PictureInvalid(pic)
					doc := map[string]interface{}{"p": pic}
					got := c16Expect(x, `$fromMillis(0, p)`, doc, nil, false, false)
					x.Validated()
					if known && bad && got.Kind != impl.Error && pic != "" {
						x.Violation("value", "picture:"+pic, explore.Detail{Program: "$fromMillis(0, p)", Input: jsonText(doc), Expected: "an error: the picture is malformed", Observed: got.String()})
					}
					if known && !bad && got.Kind != impl.Value {
						x.Violation("value", "picture:"+pic, explore.Detail{Program: "$fromMillis(0, p)", Input: jsonText(doc), Expected: "a value: the picture is well-formed", Observed: got.String()})
					}
					x.Outcome(got.Short())
					return
				}
				tz := c16StringN(c, n+1, []string{"+", "-", "0", "5", "9", "a"})
				c.Done()
				doc := map[string]interface{}{"tz": tz}
				got := c16Expect(x, `$fromMillis(0, "[H01]:[m01]", tz)`, doc, nil, false, false)
				x.Validated()
				valid := reOffset.MatchString(tz)
				if valid && tz[3:] > "59" {
					valid = false // MM counts the minutes of an hour
				}
				if !valid && got.Kind != impl.Error {
					x.Violation("value", "offset:"+tz, explore.Detail{Program: `$fromMillis(0, "[H01]:[m01]", tz)`, Input: jsonText(doc), Expected: "an error: the time zone is not +HHMM/-HHMM", Observed: got.String()})
				}
				if valid && got.Kind != impl.Value && tz[1:3] <= "14" && tz[3:] <= "59" {
					x.Violation("value", "offset:"+tz, explore.Detail{Program: `$fromMillis(0, "[H01]:[m01]", tz)`, Input: jsonText(doc), Expected: "a value", Observed: got.String()})
				}
				x.Outcome(got.Short())
			}},
			{Name: "unparseable-text", Quick: []int{1}, ShardDepth: -1, Run: func(c *explore.Chooser, x *explore.Ctx, _ int) {
				bad := []string{"", "x", "2018", "2018-13-01", "2018-02-30", "2018-01-01T25:00:00", "18-01-01", "2018/01/01", "2018-01-01T00:00:00+0", "yesterday", "2018-01-01T00:00", "1e3"}
				k := c.Choose(len(bad) + 3)
				c.Done()
				switch {
				case k < len(bad):
					if bad[k] == "2018" {
						c19Check(x, `$toMillis(s)`, map[string]interface{}{"s": bad[k]}, float64(int64(daysFromCivil(2018, 1, 1))*86400000), false)
						return
					}
					c19Check(x, `$toMillis(s)`, map[string]interface{}{"s": bad[k]}, nil, true)
				case k == len(bad):
					c19Check(x, `$toMillis("2018-01-01", "[Y0001]-[Q]")`, map[string]interface{}{}, nil, true)
				case k == len(bad)+1:
					c19Check(x, `$toMillis("2018-01-01", "[Y0001]-[M01")`, map[string]interface{}{}, nil, true)
				default:
					c19Check(x, `$toMillis("x2018", "[Y0001]")`, map[string]interface{}{}, nil, true)
				}
			}},
			{Name: "one-clock", Quick: []int{1}, ShardDepth: 2, Run: func(c *explore.Chooser, x *explore.Ctx, _ int) {
				// the harness owns the clock (verifhook.Clock): every reading advances it by `step`; the harness reads it
				// on entry and on return, Eval reads it in between. Enumerated: the sub-millisecond phase of the entry
				// time, the step, and the program shape.
				bases := []int64{1509377132000, 0, 4102444800999}
				fracs := []int64{0, 1, 499999, 500000, 500001, 999999}
				steps := []int64{0, 1, 300000, 700000, 1500000}
				base := bases[c.Choose(len(bases))]
				frac := fracs[c.Choose(len(fracs))]
				step := steps[c.Choose(len(steps))]
				form := c.Choose(3)
				c.Done()
				prog := []string{
					`[$millis(), $millis(), $toMillis($now()), $toMillis($now())]`,
					`(function(){[$millis(), $toMillis($now())]})() ~> $append([$millis(), $toMillis($now())])`,
					`$append($map([1,2], function($v){$millis()}), $map([1,2], function($v){$toMillis($now())}))`,
				}[form]
				desc := fmt.Sprintf("%s with the clock at %d ms + %d ns advancing %d ns per reading", prog, base, frac, step)
				x.Describe(func() string { return desc })
				cur := base*1e6 + frac
				readings := 0
				verifhook.Clock = func() time.Time {
					t := time.Unix(0, cur).UTC()
					cur += step
					readings++
					return t
				}
				defer func() { verifhook.Clock = nil }()
				var v interface{}
				var err error
				var t0, t1 time.Time
				if x.Guard(desc, "", func() {
					e := jsonata.MustCompile(prog)
					t0 = verifhook.Clock()
					v, err = e.Eval(nil)
					t1 = verifhook.Clock()
				}) {
					return
				}
				x.Eval()
				x.Validated()
				if err != nil {
					x.Violation("value", "clock:"+desc, explore.Detail{Program: desc, Expected: "four readings of the evaluation's clock", Observed: err.Error()})
					return
				}
				arr, _ := impl.Normalize(v).([]interface{})
				if len(arr) != 4 {
					x.Violation("value", "clock:"+desc, explore.Detail{Program: desc, Expected: "four readings", Observed: impl.Render(impl.Normalize(v))})
					return
				}
				first, _ := arr[0].(float64)
				for _, a := range arr {
					if f, ok := a.(float64); !ok || f != first {
						x.Violation("value", "clock:"+desc, explore.Detail{Program: desc, Expected: "every $now() and $millis() of one evaluation denotes the same instant", Observed: impl.Render(arr)})
						return
					}
				}
				floorMs := func(t time.Time) float64 {
					s, ns := t.Unix(), int64(t.Nanosecond())
					return float64(s*1000 + ns/1e6)
				}
				lo, hi := floorMs(t0), floorMs(t1)
				if first < lo || first > hi {
					x.Violation("value", "clock-bracket:"+desc, explore.Detail{Program: desc, Expected: fmt.Sprintf("an instant between Eval's entry (%v ms) and return (%v ms)", lo, hi), Observed: fmt.Sprint(first)})
				}
				x.Nontrivial()
				x.Outcome(fmt.Sprintf("clock ok, %d readings", readings))
			}},
		},
	})
}

func isoOffset(offMin int) string {
	if offMin == 0 {
		return "Z"
	}
	return offsetText(offMin, ":")
}

func c19Inverse(c *explore.Chooser, x *explore.Ctx, z int) {
	tod := []int64{0, 12*3600000 + 34*60000 + 56*1000, 86399999}[c.Choose(3)]
	off := []int{0, 330, -480, 765, -30}[c.Choose(5)]
	form := c.Choose(5)
	c.Done()
	ms := int64(z)*86400000 + tod
	f := c19Decompose(ms, off)
	if f.y < 1000 || f.y > 9999 {
		return
	}
	doc := map[string]interface{}{"ms": float64(ms), "tz": tzArg(off)}
	var got impl.Outcome
	switch form {
	case 0:
		got = c19Check(x, `$toMillis($fromMillis(ms, (), tz)) = ms`, doc, true, false)
	case 1: // date only: UTC midnights
		if tod != 0 || off != 0 {
			return
		}
		got = c19Check(x, `$toMillis($fromMillis(ms, "[Y0001]-[M01]-[D01]"), "[Y0001]-[M01]-[D01]") = ms`, doc, true, false)
	case 2: // whole seconds, UTC
		if off != 0 {
			return
		}
		doc["ms"] = float64(ms - ms%1000 + map[bool]int64{true: 1000, false: 0}[ms%1000 < 0])
		got = c19Check(x, `$toMillis($fromMillis(ms, "[Y0001]-[M01]-[D01]T[H01]:[m01]:[s01]"), "[Y0001]-[M01]-[D01]T[H01]:[m01]:[s01]") = ms`, doc, true, false)
	case 3: // milliseconds, UTC
		if off != 0 {
			return
		}
		got = c19Check(x, `$toMillis($fromMillis(ms, "[Y0001]-[M01]-[D01]T[H01]:[m01]:[s01].[f001]"), "[Y0001]-[M01]-[D01]T[H01]:[m01]:[s01].[f001]") = ms`, doc, true, false)
	default: // with offset
		got = c19Check(x, `$toMillis($fromMillis(ms, "[Y0001]-[M01]-[D01]T[H01]:[m01]:[s01].[f001][Z01:01]", tz), "[Y0001]-[M01]-[D01]T[H01]:[m01]:[s01].[f001][Z01:01]") = ms`, doc, true, false)
	}
	x.Outcome(got.Short())
	x.Nontrivial()
}

// c19PictureInvalid classifies a picture over the malformed alphabet. known is
// false where the statement does not settle the verdict (pictures without any
// marker, escaped brackets, width forms beyond the documented ones).
func c19PictureInvalid(p string) (bad, known bool) {
	if strings.Contains(p, "[[") || strings.Contains(p, "]]") {
		return false, false
	}
	depth := 0
	markers := 0
	start := 0
	for i, r := range p {
		switch r {
		case '[':
			if depth > 0 {
				return true, true // bracket inside a marker
			}
			depth++
			start = i + 1
		case ']':
			if depth == 0 {
				return true, true // closing bracket outside a marker
			}
			depth--
			markers++
			body := p[start:i]
			if body == "" {
				return true, true
			}
			switch body[0] {
			case 'Y':
			default:
				return true, true // Q, x, digits, punctuation are not component specifiers
			}
			if len(body) > 1 {
				mod := body[1:]
				if i := strings.LastIndex(mod, ","); i >= 0 {
					w := mod[i+1:]
					if w == "" {
						return true, true
					}
					for _, part := range strings.Split(w, "-") {
						if part != "*" && part != "1" && part != "11" && part != "111" {
							return true, false // 0, x, Q, ... in a width: invalid, but let totality decide the class
						}
					}
					if strings.Count(w, "-") > 1 {
						return true, true
					}
					// widths are all-ones numbers here, so the longer text is the larger number; "*" is unbounded
					if parts := strings.Split(w, "-"); len(parts) == 2 && parts[0] != "*" && parts[1] != "*" && len(parts[0]) > len(parts[1]) {
						return true, true // maximum below minimum
					}
					if i == 0 || mod[:i] == "1" || mod[:i] == "11" {
						continue // a plain width modifier (min, min-max, min-*, *-max) on [Y], [Y1], [Y11] is well-formed
					}
					return false, false
				}
				return false, false // presentation modifiers: totality only
			}
		}
	}
	if depth > 0 {
		return true, true // unterminated marker
	}
	if markers == 0 {
		return false, false
	}
	return false, true
}

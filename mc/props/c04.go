package props

import (
	"fmt"
	"strings"

	"github.com/blues/jsonata-go/jparse"

	"verif/mc/explore"
)

// ---- canonical trees -------------------------------------------------------

type c04Tree struct {
	op   string // "" for leaves
	leaf string
	kids []*c04Tree
}

func c04Leaf(s string) *c04Tree { return &c04Tree{leaf: s} }

func c04N(op string, kids ...*c04Tree) *c04Tree { return &c04Tree{op: op, kids: kids} }

// canon prints a tree with paths flattened to step lists and stacked
// predicates flattened to filter lists (the two forms the port's optimiser
// produces for the same parse).
func (t *c04Tree) canon() string {
	if t == nil {
		return "<nil>"
	}
	if t.op == "" {
		return t.leaf
	}
	kids := t.kids
	switch t.op {
	case ".":
		var flat []*c04Tree
		for _, k := range kids {
			if k.op == "." {
				flat = append(flat, k.kids...)
			} else {
				flat = append(flat, k)
			}
		}
		// a second round for nesting produced by left-assoc chains
		for changed := true; changed; {
			changed = false
			var next []*c04Tree
			for _, k := range flat {
				if k.op == "." {
					next = append(next, k.kids...)
					changed = true
				} else {
					next = append(next, k)
				}
			}
			flat = next
		}
		kids = flat
		if len(kids) == 1 {
			return kids[0].canon()
		}
	case "[]":
		for len(kids) > 0 && kids[0].op == "[]" {
			kids = append(append([]*c04Tree{}, kids[0].kids...), kids[1:]...)
		}
		// a predicate on a one-step path is a predicate on the step
		if len(kids) > 0 && kids[0].op == "." && len(kids[0].kids) == 1 {
			kids = append([]*c04Tree{kids[0].kids[0]}, kids[1:]...)
		}
	}
	parts := make([]string, len(kids))
	for i, k := range kids {
		parts[i] = k.canon()
	}
	return "(" + t.op + " " + strings.Join(parts, " ") + ")"
}

// fromAST converts the exported jparse AST to a canonical tree.
func c04FromAST(n jparse.Node) *c04Tree {
	switch x := n.(type) {
	case *jparse.StringNode:
		return c04Leaf("s:" + x.Value)
	case *jparse.NumberNode:
		return c04Leaf(fmt.Sprintf("#%g", x.Value))
	case *jparse.BooleanNode:
		return c04Leaf(fmt.Sprintf("b:%v", x.Value))
	case *jparse.NullNode:
		return c04Leaf("null")
	case *jparse.RegexNode:
		return c04Leaf("re:" + x.Value.String())
	case *jparse.VariableNode:
		return c04Leaf("$" + x.Name)
	case *jparse.NameNode:
		return c04Leaf("n:" + x.Value)
	case *jparse.WildcardNode:
		return c04Leaf("*")
	case *jparse.DescendentNode:
		return c04Leaf("**")
	case *jparse.PathNode:
		t := c04N(".")
		if x.KeepArrays {
			t.op = ".[]"
		}
		for _, s := range x.Steps {
			t.kids = append(t.kids, c04FromAST(s))
		}
		return t
	case *jparse.PredicateNode:
		t := c04N("[]", c04FromAST(x.Expr))
		for _, f := range x.Filters {
			t.kids = append(t.kids, c04FromAST(f))
		}
		return t
	case *jparse.GroupNode:
		t := c04N("{}", c04FromAST(x.Expr))
		for _, p := range x.Pairs {
			t.kids = append(t.kids, c04FromAST(p[0]), c04FromAST(p[1]))
		}
		return t
	case *jparse.ObjectNode:
		t := c04N("obj")
		for _, p := range x.Pairs {
			t.kids = append(t.kids, c04FromAST(p[0]), c04FromAST(p[1]))
		}
		return t
	case *jparse.ArrayNode:
		t := c04N("arr")
		for _, it := range x.Items {
			t.kids = append(t.kids, c04FromAST(it))
		}
		return t
	case *jparse.RangeNode:
		return c04N("..", c04FromAST(x.LHS), c04FromAST(x.RHS))
	case *jparse.SortNode:
		t := c04N("^", c04FromAST(x.Expr))
		for _, term := range x.Terms {
			t.kids = append(t.kids, c04FromAST(term.Expr))
		}
		return t
	case *jparse.FunctionCallNode:
		t := c04N("call", c04FromAST(x.Func))
		for _, a := range x.Args {
			t.kids = append(t.kids, c04FromAST(a))
		}
		return t
	case *jparse.PartialNode:
		t := c04N("partial", c04FromAST(x.Func))
		for _, a := range x.Args {
			t.kids = append(t.kids, c04FromAST(a))
		}
		return t
	case *jparse.PlaceholderNode:
		return c04Leaf("?")
	case *jparse.BlockNode:
		t := c04N("paren")
		for _, e := range x.Exprs {
			t.kids = append(t.kids, c04FromAST(e))
		}
		return t
	case *jparse.NegationNode:
		return c04N("neg", c04FromAST(x.RHS))
	case *jparse.NumericOperatorNode:
		return c04N(x.Type.String(), c04FromAST(x.LHS), c04FromAST(x.RHS))
	case *jparse.ComparisonOperatorNode:
		return c04N(x.Type.String(), c04FromAST(x.LHS), c04FromAST(x.RHS))
	case *jparse.BooleanOperatorNode:
		return c04N(x.Type.String(), c04FromAST(x.LHS), c04FromAST(x.RHS))
	case *jparse.StringConcatenationNode:
		return c04N("&", c04FromAST(x.LHS), c04FromAST(x.RHS))
	case *jparse.FunctionApplicationNode:
		return c04N("~>", c04FromAST(x.LHS), c04FromAST(x.RHS))
	case *jparse.ConditionalNode:
		t := c04N("?", c04FromAST(x.If), c04FromAST(x.Then))
		if x.Else != nil {
			t.kids = append(t.kids, c04FromAST(x.Else))
		}
		return t
	case *jparse.AssignmentNode:
		return c04N(":=", c04Leaf("$"+x.Name), c04FromAST(x.Value))
	case *jparse.LambdaNode:
		return c04N("lambda", c04FromAST(x.Body))
	case *jparse.TypedLambdaNode:
		return c04N("lambda", c04FromAST(x.Body))
	case *jparse.ObjectTransformationNode:
		return c04N("transform", c04FromAST(x.Pattern), c04FromAST(x.Updates))
	}
	return c04Leaf(fmt.Sprintf("<%T>", n))
}

// ---- reference parser ------------------------------------------------------

type c04Tok struct {
	text string // source text
	kind byte   // 'o' operand, 'x' operator/punctuation
	leaf string // canonical leaf for operands
	lit  bool   // operand is a literal (illegal as a path step)
}

// levels: the rows of the statement, tightest first.
var c04Level = map[string]int{
	"(": 1, "[": 1, ".": 2, "{": 3, "*": 4, "/": 4, "%": 4, "+": 5, "-": 5, "&": 5,
	"=": 6, "!=": 6, "<": 6, "<=": 6, ">": 6, ">=": 6, "in": 6, "^": 6, "~>": 6,
	"and": 7, "or": 8, "?": 9, ":=": 10,
}

func c04Bp(op string) int {
	l, ok := c04Level[op]
	if !ok {
		return 0
	}
	return (11 - l) * 10
}

type c04Parser struct {
	toks []c04Tok
	pos  int
	err  string
}

func (p *c04Parser) peek() *c04Tok {
	if p.pos < len(p.toks) {
		return &p.toks[p.pos]
	}
	return nil
}

func (p *c04Parser) fail(msg string) *c04Tree {
	if p.err == "" {
		p.err = msg
	}
	return nil
}

func (p *c04Parser) expect(text string) bool {
	t := p.peek()
	if t == nil || t.kind != 'x' || t.text != text {
		p.fail("expected " + text)
		return false
	}
	p.pos++
	return true
}

func (p *c04Parser) expr(rbp int) *c04Tree {
	t := p.peek()
	if t == nil {
		return p.fail("unexpected end")
	}
	var left *c04Tree
	switch {
	case t.kind == 'o':
		p.pos++
		left = &c04Tree{leaf: t.leaf}
		if t.lit {
			left.op, left.kids = "", nil
			left.leaf = t.leaf
		}
	case t.text == "(":
		p.pos++
		inner := p.expr(0)
		if p.err != "" || !p.expect(")") {
			return nil
		}
		left = c04N("paren", inner)
	default:
		return p.fail("prefix " + t.text)
	}
	for p.err == "" {
		t := p.peek()
		if t == nil || t.kind != 'x' || c04Bp(t.text) <= rbp {
			break
		}
		op := t.text
		p.pos++
		switch op {
		case "(":
			arg := p.expr(0)
			if p.err != "" || !p.expect(")") {
				return nil
			}
			left = c04N("call", left, arg)
		case "[":
			f := p.expr(0)
			if p.err != "" || !p.expect("]") {
				return nil
			}
			left = c04N("[]", left, f)
		case "{":
			k := p.expr(0)
			if p.err != "" || !p.expect(":") {
				return nil
			}
			v := p.expr(0)
			if p.err != "" || !p.expect("}") {
				return nil
			}
			left = c04N("{}", left, k, v)
		case "^":
			if !p.expect("(") {
				return nil
			}
			k := p.expr(0)
			if p.err != "" || !p.expect(")") {
				return nil
			}
			left = c04N("^", left, k)
		case "?":
			then := p.expr(0)
			if p.err != "" {
				return nil
			}
			n := c04N("?", left, then)
			if t := p.peek(); t != nil && t.kind == 'x' && t.text == ":" {
				p.pos++
				els := p.expr(0) // the else-branch groups to the right
				if p.err != "" {
					return nil
				}
				n.kids = append(n.kids, els)
			}
			left = n
		case ":=":
			right := p.expr(c04Bp(op) - 1) // right-associative
			if p.err != "" {
				return nil
			}
			left = c04N(":=", left, right)
		default:
			right := p.expr(c04Bp(op)) // left-associative within a row
			if p.err != "" {
				return nil
			}
			left = c04N(op, left, right)
		}
	}
	return left
}

// c04Static returns the static errors the port raises on a dictated tree.
func c04Static(t *c04Tree, lits map[string]bool, out map[string]bool) {
	if t == nil || t.op == "" {
		return
	}
	for _, k := range t.kids {
		c04Static(k, lits, out)
	}
	switch t.op {
	case ".":
		for _, k := range t.kids {
			if k.op == "" && lits[k.leaf] {
				out["parse:18"] = true // ErrPathLiteral
			}
		}
	case ":=":
		if l := t.kids[0]; l.op != "" || !strings.HasPrefix(l.leaf, "$") {
			out["parse:19"] = true // ErrIllegalAssignment
		}
	case "[]":
		if t.kids[0].op == "{}" {
			out["parse:16"] = true // ErrGroupPredicate
		}
	case "{}":
		if t.kids[0].op == "{}" {
			out["parse:17"] = true // ErrGroupGroup
		}
	}
}

// ---- chain generator -------------------------------------------------------

var c04Ops = []string{".", "[", "(", "{", "*", "/", "%", "+", "-", "&", "=", "!=", "<", "<=", ">", ">=", "in", "^", "~>", "and", "or", "?", "?:", ":="}

type c04Operand struct {
	text, leaf string
	lit        bool
}

func c04OperandAt(i, kind int, singleQuote bool) c04Operand {
	switch kind {
	case 0:
		v := string(rune('a' + i))
		return c04Operand{"$" + v, "$" + v, false}
	case 1:
		v := "n" + string(rune('a'+i))
		return c04Operand{v, "n:" + v, false}
	case 4: // a negated variable: the sign belongs to its operand and never swallows the operators that follow
		v := string(rune('a' + i))
		return c04Operand{"-$" + v, "(neg $" + v + ")", false}
	case 5: // a negative number literal
		v := string(rune('1' + i))
		return c04Operand{"-" + v, "#-" + v, true}
	case 3: // number literals: what a constant-folding optimiser would like to regroup
		v := string(rune('1' + i))
		return c04Operand{v, "#" + v, true}
	default:
		v := "s" + string(rune('a'+i))
		q := `"`
		if singleQuote {
			q = "'"
		}
		return c04Operand{q + v + q, "s:" + v, true}
	}
}

func c04X(text string) c04Tok { return c04Tok{text: text, kind: 'x'} }

func c04O(o c04Operand) c04Tok { return c04Tok{text: o.text, kind: 'o', leaf: o.leaf, lit: o.lit} }

// c04Render joins tokens under a whitespace policy: 0 minimal, 1 single
// spaces, 2 newline/tab mix.
func c04Render(toks []c04Tok, ws int) string {
	var sb strings.Builder
	word := func(s string) bool {
		if s == "" {
			return false
		}
		b := s[len(s)-1]
		return b == '$' || (b >= 'a' && b <= 'z') || (b >= '0' && b <= '9')
	}
	for i, t := range toks {
		if i > 0 {
			switch ws {
			case 0:
				prev := toks[i-1].text
				first := t.text[0]
				// a quote after a word would be scanned as part of the name: that space is not optional
				startsWord := first == '$' || first == '"' || first == '\'' || (first >= 'a' && first <= 'z') || (first >= '0' && first <= '9')
				if word(prev) && startsWord {
					sb.WriteByte(' ')
				}
				// "1.2" is one number, "1..2" a range: the path operator next to a number literal needs its spaces
				digit := func(b byte) bool { return b >= '0' && b <= '9' }
				if (t.text == "." && digit(prev[len(prev)-1])) || (prev == "." && digit(first)) {
					sb.WriteByte(' ')
				}
			case 1:
				sb.WriteByte(' ')
			default:
				if i%2 == 0 {
					sb.WriteString("\n")
				} else {
					sb.WriteString("\t ")
				}
			}
		}
		sb.WriteString(t.text)
	}
	return sb.String()
}

// c04Chain builds the token list of a chain; starts[i] / ends[j] are the token
// indexes where a parenthesis may open (before a primary) or close.
func c04Chain(ops []string, kinds []int, singleQuote bool) (toks []c04Tok, starts, ends []int) {
	oi := 0
	next := func() c04Operand {
		o := c04OperandAt(oi, kinds[oi%len(kinds)], singleQuote)
		oi++
		return o
	}
	starts = append(starts, 0)
	toks = append(toks, c04O(next()))
	ends = append(ends, len(toks))
	for _, op := range ops {
		switch op {
		case "[":
			toks = append(toks, c04X("["), c04O(next()), c04X("]"))
			ends = append(ends, len(toks))
		case "(":
			toks = append(toks, c04X("("), c04O(next()), c04X(")"))
			ends = append(ends, len(toks))
		case "{":
			toks = append(toks, c04X("{"), c04Tok{text: `"k"`, kind: 'o', leaf: "s:k", lit: true}, c04X(":"), c04O(next()), c04X("}"))
			ends = append(ends, len(toks))
		case "^":
			toks = append(toks, c04X("^"), c04X("("), c04O(next()), c04X(")"))
			ends = append(ends, len(toks))
		case "?:":
			toks = append(toks, c04X("?"), c04Tok{text: "$m", kind: 'o', leaf: "$m"}, c04X(":"))
			starts = append(starts, len(toks))
			toks = append(toks, c04O(next()))
			ends = append(ends, len(toks))
		default:
			toks = append(toks, c04X(op))
			starts = append(starts, len(toks))
			toks = append(toks, c04O(next()))
			ends = append(ends, len(toks))
		}
	}
	return
}

func c04InsertParens(toks []c04Tok, open, close int) []c04Tok {
	out := make([]c04Tok, 0, len(toks)+2)
	for i, t := range toks {
		if i == open {
			out = append(out, c04X("("))
		}
		if i == close {
			out = append(out, c04X(")"))
		}
		out = append(out, t)
	}
	if close == len(toks) {
		out = append(out, c04X(")"))
	}
	return out
}

// c04Compare parses the text with the port and compares with the reference parse.
func c04Compare(x *explore.Ctx, toks []c04Tok, ws int) {
	src := c04Render(toks, ws)
	p := &c04Parser{toks: toks}
	want := p.expr(0)
	if p.err == "" && p.pos != len(p.toks) {
		p.err = "trailing tokens"
	}
	static := map[string]bool{}
	if p.err == "" {
		lits := map[string]bool{}
		for _, t := range toks {
			if t.lit {
				lits[t.leaf] = true
			}
		}
		c04Static(want, lits, static)
	}
	node, err := jparse.Parse(src)
	x.Eval()
	x.Validated()
	report := func(expected, observed string) {
		x.Violation("value", "parse:"+src, explore.Detail{Program: src, Expected: expected, Observed: observed})
	}
	switch {
	case p.err != "":
		if err == nil {
			report("a syntax error ("+p.err+")", "parsed as "+c04FromAST(node).canon())
		}
		x.Outcome("syntax-error")
	case len(static) > 0:
		if err == nil {
			report(fmt.Sprintf("a static error %v for the dictated tree %s", keysOf(static), want.canon()), "parsed as "+c04FromAST(node).canon())
		} else if pe, ok := err.(*jparse.Error); !ok || !static[fmt.Sprintf("parse:%d", int(pe.Type))] {
			report(fmt.Sprintf("a static error %v for the dictated tree %s", keysOf(static), want.canon()), "error "+err.Error())
		}
		x.Outcome("static-error")
	default:
		if err != nil {
			report("tree "+want.canon(), "error "+err.Error())
			return
		}
		got := c04FromAST(node).canon()
		if got != want.canon() {
			report("tree "+want.canon(), "tree "+got)
		}
		x.Nontrivial()
		x.Outcome("tree")
	}
	x.Sample(func() string { return src + "  =>  " + fmt.Sprint(want.canon(), " ", p.err) })
}

func keysOf(m map[string]bool) []string {
	var ks []string
	for k := range m {
		ks = append(ks, k)
	}
	return ks
}

func init() {
	explore.Register(&explore.Prop{
		ID:        "C04",
		Title:     "The parse is fixed by JSONata precedence, associativity and parentheses",
		Technique: "exhaustive enumeration of all operator chains (every ordered tuple of the 24 infix/postfix operators) x operand kinds x parenthesis spans x whitespace policies, compared with a table-driven reference parser on canonical trees",
		Rule: "each (operator tuple, operand kinds, quote style, parenthesis span, whitespace policy) is one case; oracle: the port's AST, canonicalised, equals " +
			"the tree dictated by the precedence table (or both report an error, with the static error class compared); non-trivial when a tree is produced",
		Assumptions: []string{
			"a sign is generated only in front of a variable or a number literal whose next operator is an infix one (the postfix operators bind tighter than the sign)",
			"chains longer than 4 operators are enumerated without parentheses only (5: all operators, 6: one operator per binding level); longer ones are outside the bound",
		},
		Phases: []explore.Phase{
			{Name: "chains", Quick: []int{1, 2, 3}, Thorough: []int{1, 2, 3, 4}, Run: func(c *explore.Chooser, x *explore.Ctx, n int) {
				ops := make([]string, n)
				for i := range ops {
					ops[i] = c04Ops[c.Choose(len(c04Ops))]
				}
				// operand kinds: a repeating pattern of kinds (two for n<=3, vars only for n=4)
				kinds := []int{0}
				if n < 4 {
					kinds = []int{c.Choose(6), c.Choose(6)}
				}
				single := false
				if kinds[0] == 2 || (len(kinds) > 1 && kinds[1] == 2) {
					single = c.Bool()
				}
				// the postfix operators bind tighter than a sign (-$f(1) negates the call): a negated operand is
				// generated only where the next operator is an infix one
				for i, op := range ops {
					if k := kinds[i%len(kinds)]; (k == 4 || k == 5) && (op == "." || op == "[" || op == "(" || op == "{") {
						c.Done()
						return
					}
				}
				toks, starts, ends := c04Chain(ops, kinds, single)
				// parenthesis span: none, or one (open before a primary, close after a later end)
				span := c.Choose(1 + len(starts)*len(ends))
				ws := 0
				if span == 0 {
					ws = c.Choose(3) // every whitespace policy on the bare chain
				} else {
					ws = c.Choose(2)
				}
				c.Done()
				if span > 0 {
					o, e := starts[(span-1)/len(ends)], ends[(span-1)%len(ends)]
					if e <= o {
						return
					}
					toks = c04InsertParens(toks, o, e)
				}
				c04Compare(x, toks, ws)
			}},
			{Name: "long-bare-chains", Thorough: []int{5, 6}, ShardDepth: 3, Run: func(c *explore.Chooser, x *explore.Ctx, n int) {
				// longer chains without parentheses: all 24^5 operator tuples; for 6 operators one operator per
				// binding level (and both associativities)
				pool := c04Ops
				if n >= 6 {
					pool = []string{".", "[", "*", "+", "&", "=", "<", "in", "^", "~>", "and", "or", "?:", ":="}
				}
				ops := make([]string, n)
				for i := range ops {
					ops[i] = pool[c.Choose(len(pool))]
				}
				c.Done()
				toks, _, _ := c04Chain(ops, []int{0}, false)
				c04Compare(x, toks, 0)
			}},
			{Name: "regex-or-division", Quick: []int{1}, ShardDepth: 1, Run: func(c *explore.Chooser, x *explore.Ctx, _ int) {
				// where an operand is expected "/" starts a regex; after an operand it divides
				operandExpected := []string{"", "$a + ", "$a * ", "$a / ", "$a = ", "$a and ", "$a ~> ", "$a & ", "$a in ", "$a ? ", "$a ? $b : ", "$x := ", "(", "[", "[$a, ", "{\"k\": ",
					"$f(", "$f($a, ", "$a[", "$a{\"k\": ", "$a^(", "$a.", "-", "[$a..", "$a or ", "$a != ", "$a <= ", "$a % ", "$a - ", "|$a|", "function($v){", "($a; "}
				afterOperand := []string{"$a", "na", "1", `"s"`, "true", "null", "$a[0]", "$a[]", "$f()", "$f($a)", "($a)", "[1]", "{\"k\":1}", "$a{\"k\":1}", "$a^($b)", "$a.nb", "**", "*",
					"function($v){$v}", "|$a|{}|", "/re/", "$a[0][1]", "`q n`"}
				closers := map[string]string{"(": ")", "[": "]", "[$a, ": "]", "{\"k\": ": "}", "$f(": ")", "$f($a, ": ")", "$a[": "]", "$a{\"k\": ": "}", "$a^(": ")", "[$a..": "]",
					"|$a|": "|", "function($v){": "}", "($a; ": ")"}
				if c.Bool() {
					ctx := operandExpected[c.Choose(len(operandExpected))]
					c.Done()
					src := ctx + "/ab/" + closers[ctx]
					node, err := jparse.Parse(src)
					x.Eval()
					x.Validated()
					if err != nil {
						x.Violation("value", "parse:"+src, explore.Detail{Program: src, Expected: "a regular expression where an operand is expected", Observed: "error " + err.Error()})
						return
					}
					if !strings.Contains(c04FromAST(node).canon(), "re:ab") {
						x.Violation("value", "parse:"+src, explore.Detail{Program: src, Expected: "a regular expression literal /ab/", Observed: c04FromAST(node).canon()})
					}
					x.Nontrivial()
					x.Outcome("regex")
					return
				}
				opnd := afterOperand[c.Choose(len(afterOperand))]
				c.Done()
				src := opnd + " / $b / $c"
				node, err := jparse.Parse(src)
				x.Eval()
				x.Validated()
				if err != nil {
					x.Violation("value", "parse:"+src, explore.Detail{Program: src, Expected: "division after an operand: ((X / $b) / $c)", Observed: "error " + err.Error()})
					return
				}
				got := c04FromAST(node).canon()
				if !strings.HasPrefix(got, "(/ (/ ") || !strings.HasSuffix(got, " $b) $c)") {
					x.Violation("value", "parse:"+src, explore.Detail{Program: src, Expected: "division after an operand: (/ (/ X $b) $c)", Observed: got})
				}
				x.Nontrivial()
				x.Outcome("division")
			}},
			{Name: "keywords-as-names", Quick: []int{1}, ShardDepth: 1, Run: func(c *explore.Chooser, x *explore.Ctx, _ int) {
				// and, or, in are field names where an operand is expected
				type kw struct{ src, want string }
				var cases []kw
				for _, k := range []string{"and", "or", "in"} {
					for _, o := range []string{"and", "or", "in"} {
						cases = append(cases,
							kw{k + " " + o + " " + k, "(" + o + " n:" + k + " n:" + k + ")"},
							kw{k + "." + o, "(. n:" + k + " n:" + o + ")"},
							kw{k + "[" + o + "]", "([] n:" + k + " n:" + o + ")"},
							kw{`{"k": ` + k + `}.` + o, "(. (obj s:k n:" + k + ") n:" + o + ")"},
							kw{"$f(" + k + ", " + o + ")", "(call $f n:" + k + " n:" + o + ")"},
							kw{"(" + k + ") " + o + " $a", "(" + o + " (paren n:" + k + ") $a)"},
							kw{"$a " + o + " " + k + " " + o + " $b", "(" + o + " (" + o + " $a n:" + k + ") $b)"},
						)
					}
				}
				k := cases[c.Choose(len(cases))]
				ws := c.Choose(2)
				c.Done()
				src := k.src
				if ws == 1 {
					src = strings.Replace(src, " ", "\n ", -1)
				}
				node, err := jparse.Parse(src)
				x.Eval()
				x.Validated()
				if err != nil {
					x.Violation("value", "parse:"+src, explore.Detail{Program: src, Expected: k.want, Observed: "error " + err.Error()})
					return
				}
				if got := c04FromAST(node).canon(); got != k.want {
					x.Violation("value", "parse:"+src, explore.Detail{Program: src, Expected: k.want, Observed: got})
				}
				x.Nontrivial()
				x.Outcome("keyword-name")
			}},
		},
	})
}

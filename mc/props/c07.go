package props

import (
	"reflect"
	"strings"

	jsonata "github.com/blues/jsonata-go"

	"verif/mc/explore"
	"verif/mc/impl"
	"verif/mc/ref"
)

// c07Values: member values of generated documents (nulls, empty containers,
// duplicates, nested arrays, objects with sortable members).
func c07Values() []interface{} {
	obj := func(k float64, v interface{}) map[string]interface{} { return map[string]interface{}{"k": k, "v": v} }
	return []interface{}{
		[]interface{}{3.0, 1.0, 2.0}, []interface{}{1.0, 1.0, 2.0}, []interface{}{"b", "a", "c"}, []interface{}{[]interface{}{2.0, 1.0}, []interface{}{3.0}},
		[]interface{}{obj(2, "p"), obj(1, "q"), obj(2, "r")}, obj(2, []interface{}{1.0, 2.0}), []interface{}{nil, 1.0}, []interface{}{}, map[string]interface{}{},
		1.0, "x", true, nil, []interface{}{obj(1, obj(5, "in"))}, []interface{}{map[string]interface{}{"k": "s2", "b": 1.0}, map[string]interface{}{"k": "s1"}},
	}
}

// c07Doc builds document number i afresh (a broken implementation may have
// modified the previous copy). The second result is the value registered as $v.
func c07Doc(i int) (doc interface{}, v interface{}) {
	vals := c07Values()
	n := len(vals)
	switch {
	case i < n*4:
		a := impl.Clone(vals[i%n])
		b := impl.Clone(vals[(i/n*5+3)%n])
		m := map[string]interface{}{"a": a, "b": b, "o": []interface{}{map[string]interface{}{"k": 2.0, "v": "p"}, map[string]interface{}{"k": 1.0, "v": "q"}}}
		var vv interface{}
		switch i / n {
		case 0:
			vv = impl.Clone(vals[i%n]) // separate value
		case 1:
			vv = a // the variable is part of the document
		case 2:
			vv = m["o"]
		default:
			vv = m
		}
		return m, vv
	case i == n*4: // two views of one backing array: an in-place append through one is visible through the other
		s := []interface{}{3.0, 1.0, 2.0, 9.0, 8.0}
		return map[string]interface{}{"a": s[:3], "b": s[:4], "o": []interface{}{s[:2]}}, s[:3]
	case i == n*4+1: // one map reachable through two members
		m := map[string]interface{}{"k": 1.0, "v": []interface{}{2.0, 1.0}}
		return map[string]interface{}{"a": []interface{}{m, m}, "b": m, "o": []interface{}{m}}, m
	case i == n*4+2: // array at the top
		s := []interface{}{map[string]interface{}{"a": []interface{}{2.0, 1.0}, "k": 2.0}, map[string]interface{}{"a": []interface{}{4.0, 3.0}, "k": 1.0}}
		return s, s[0]
	default:
		return map[string]interface{}{"a": []interface{}{[]interface{}{[]interface{}{2.0, 1.0}}}, "b": "s", "o": []interface{}{}}, "s"
	}
}

func c07NumDocs() int { return len(c07Values())*4 + 4 }

// shapes with one hole X; every built-in and node type that handles arrays or objects
var c07Shapes = []string{
	"$sort(X)", "$reverse(X)", "$shuffle(X)", "$distinct(X)", "$append(X, X)", "$append(X, 9)", "$append([0], X)", "$zip(X, X)", "$zip(X)", "$merge(X)", "$keys(X)", "$spread(X)",
	"$each(X, function($v,$k){$v})", "$sift(X, function($v){true})", "$map(X, function($v){$v})", "$filter(X, function($v){true})", "$filter(X, function($v,$i){$i=0})",
	"$reduce(X, function($a,$b){$append($a,$b)})", "$reduce(X, function($a,$b){$a}, X)", "$sort(X, function($x,$y){$x.k > $y.k})", "$sort(X, function($x,$y){$x > $y})",
	"$single(X, function($v,$i){$i=0})", "X^(k)", "X^(>k)", "X^($)", "X^(>$)", "X{$string(k): $}", "X{\"g\": $}", "X[0]", "X[-1]", "X[k=1]", "X[[1,0]]", "X.*", "X.**", "X.k", "X.v",
	"[X]", "[X, X]", "{\"r\": X}", "X ~> |$|{\"z\":1}|", "X ~> |*|{\"z\":1}, \"k\"|", "X ~> |**|{}, \"v\"|", "$ ~> |X|{\"z\":1}|", "$map(X, |$|{\"z\":1}|)",
	"$count(X)", "$sum(X)", "$max(X)", "$min(X)", "$average(X)", "$join(X)", "$join(X, \",\")", "$string(X)", "$lookup(X, \"k\")", "$type(X)", "$exists(X)", "$boolean(X)", "$not(X)",
	"X & \"\"", "X = X", "X in X", "$number(X)", "$length(X)", "$uppercase(X)", "(X)", "X ? X : X", "$v := X", "($w := X; $append($w, 1))", "X ~> $append(7)", "X ~> $reverse ~> $sort",
	"function($p){$append($p, 1)}(X)", "$append(?, 5)(X)", "X.$reverse($)", "X.$sort($)", "X[$reverse($) != $]", "$zip(X, $reverse(X))", "$append($reverse(X), X)",
}

var c07Operands = []string{"a", "b", "o", "$$", "$", "$v", "a.k", "o.v", "$$.a", "$v.a"}

// c07Frame evaluates program on a fresh copy of document di and checks that the
// document and the registered variable are deep-equal to what they were.
func c07Frame(x *explore.Ctx, prog string, di int) impl.Outcome {
	doc, v := c07Doc(di)
	snapDoc, snapV := impl.Clone(doc), impl.Clone(v)
	inText := jsonText(doc)
	e, err := jsonata.Compile(prog)
	if err != nil {
		return impl.Outcome{Kind: impl.CompileError, Err: err}
	}
	e.RegisterVars(map[string]interface{}{"v": v})
	var out impl.Outcome
	x.Eval()
	x.Describe(func() string { return prog + " on " + inText })
	if x.Guard(prog, inText, func() { out = impl.EvalExpr(e, doc) }) {
		return out
	}
	x.Validated()
	if !reflect.DeepEqual(doc, snapDoc) {
		x.Violation("value", "mutated-input:"+prog+"|"+inText, explore.Detail{Program: prog, Input: inText,
			Expected: "the caller's document unchanged after Eval (" + out.Short() + ")", Observed: "document is now " + jsonText(doc)})
	}
	if !reflect.DeepEqual(v, snapV) {
		x.Violation("value", "mutated-variable:"+prog+"|"+inText, explore.Detail{Program: prog, Input: inText + "  with $v = " + jsonText(snapV),
			Expected: "the registered variable unchanged after Eval", Observed: "$v is now " + jsonText(v)})
	}
	return out
}

// transform grammar (reference-checked)
var c07Patterns = []struct {
	src  string
	node func() ref.Node
}{
	{"$", func() ref.Node { return &ref.Var{N: ""} }},
	{"a", func() ref.Node { return rpath(rname("a")) }},
	{"o", func() ref.Node { return rpath(rname("o")) }},
	{"a.v", func() ref.Node { return rpath(rname("a"), rname("v")) }},
	{"*", func() ref.Node { return &ref.Wild{} }},
	{"**", func() ref.Node { return &ref.Desc{} }},
	{"o[k=1]", func() ref.Node {
		return rpath(&ref.Pred{X: rname("o"), Filters: []ref.Node{&ref.Bin{Op: "=", L: rpath(rname("k")), R: rnum(1)}}})
	}},
	{"nothing", func() ref.Node { return rpath(rname("nothing")) }},
	{"[a, o]", func() ref.Node { return &ref.Arr{Items: []ref.Node{rpath(rname("a")), rpath(rname("o"))}} }},
}

var c07Updates = []struct {
	src  string
	node func() ref.Node
}{
	{`{}`, func() ref.Node { return &ref.Obj{} }},
	{`{"z":1}`, func() ref.Node { return robj("z", rnum(1)) }},
	{`{"k":9}`, func() ref.Node { return robj("k", rnum(9)) }},
	{`{"z":k}`, func() ref.Node { return robj("z", rpath(rname("k"))) }},
	{`{"z":v, "y":"n"}`, func() ref.Node {
		return &ref.Obj{Pairs: [][2]ref.Node{{rstr("z"), rpath(rname("v"))}, {rstr("y"), rstr("n")}}}
	}},
	{`5`, func() ref.Node { return rnum(5) }},
	{`"s"`, func() ref.Node { return rstr("s") }},
	{`[]`, func() ref.Node { return &ref.Arr{} }},
	{`nothing`, func() ref.Node { return rpath(rname("nothing")) }},
	{`$`, func() ref.Node { return rvar("") }}, // the selected object itself: its members are carried over unchanged
}

var c07Deletes = []struct {
	src  string
	node func() ref.Node
}{
	{"", nil},
	{`"k"`, func() ref.Node { return rstr("k") }},
	{`["k","v"]`, func() ref.Node { return &ref.Arr{Items: []ref.Node{rstr("k"), rstr("v")}} }},
	{`"missing"`, func() ref.Node { return rstr("missing") }},
	{`5`, func() ref.Node { return rnum(5) }},
	{`[1]`, func() ref.Node { return &ref.Arr{Items: []ref.Node{rnum(1)}} }},
	{`nothing`, func() ref.Node { return rpath(rname("nothing")) }},
	{`["k", 2]`, func() ref.Node { return &ref.Arr{Items: []ref.Node{rstr("k"), rnum(2)}} }},
}

func rname(n string) ref.Node          { return &ref.Name{N: n} }
func rpath(steps ...ref.Node) ref.Node { return &ref.Path{Steps: steps, KeepAt: -1} }
func rnum(f float64) ref.Node          { return &ref.Lit{Val: f, Src: ref.NumString(f)} }
func rstr(s string) ref.Node           { return &ref.Lit{Val: s, Src: `"` + s + `"`} }
func robj(k string, v ref.Node) ref.Node {
	return &ref.Obj{Pairs: [][2]ref.Node{{rstr(k), v}}}
}
func rvar(n string) ref.Node { return &ref.Var{N: n} }
func rcall(fn string, args ...ref.Node) ref.Node {
	return &ref.Call{Fn: &ref.Var{N: fn}, Args: args}
}

func init() {
	nd := c07NumDocs()
	explore.Register(&explore.Prop{
		ID:        "C07",
		Title:     "Input documents are never modified; transform returns a modified copy",
		Technique: "exhaustive enumeration of programs (every array/object built-in and node shape, composed to depth 2) x generated documents with nulls, empty containers and aliased sub-structures (frame condition), and of the transform grammar pattern x update x delete x application form against a reference transform",
		Rule: "a case is one program on one freshly built document with a registered variable; oracle 1: document and variable deep-equal their snapshots after every evaluation, successful or failing; " +
			"oracle 2 (context-relative patterns): the result equals the reference transform; non-trivial when the evaluation yields a value",
		Assumptions: []string{
			"struct-typed inputs are not generated (maps, slices and scalars only)",
			"for patterns that escape the copy ($$, variables) only the frame condition is checked: the statement does not fix the result",
			"update objects that embed the matched object itself ({\"z\":$}) are not generated (they make the result cyclic in the reference implementation as well)",
		},
		Phases: []explore.Phase{
			{Name: "frame-depth1", Quick: []int{1}, Run: func(c *explore.Chooser, x *explore.Ctx, _ int) {
				shape := c07Shapes[c.Choose(len(c07Shapes))]
				op := c07Operands[c.Choose(len(c07Operands))]
				di := c.Choose(nd)
				c.Done()
				prog := strings.Replace(shape, "X", op, -1)
				out := c07Frame(x, prog, di)
				x.Outcome(out.Short())
				if out.Kind == impl.Value {
					x.Nontrivial()
				}
				x.Sample(func() string { return prog })
			}},
			{Name: "frame-depth2", Quick: []int{1}, Thorough: []int{1, 2}, Run: func(c *explore.Chooser, x *explore.Ctx, size int) {
				outer := c07Shapes[c.Choose(len(c07Shapes))]
				inner := c07Shapes[c.Choose(len(c07Shapes))]
				ops := c07Operands[:3]
				docs := []int{0, 1, 4, 5, 13, 14, nd - 4, nd - 3, nd - 2, nd - 1, 15 + 4, 30 + 4, 45 + 4}
				if size == 2 {
					ops = c07Operands
					docs = nil
					for i := 0; i < nd; i++ {
						docs = append(docs, i)
					}
				}
				op := ops[c.Choose(len(ops))]
				di := docs[c.Choose(len(docs))]
				c.Done()
				prog := strings.Replace(outer, "X", "("+strings.Replace(inner, "X", op, -1)+")", -1)
				out := c07Frame(x, prog, di)
				x.Outcome(out.Short())
				if out.Kind == impl.Value {
					x.Nontrivial()
				}
			}},
			{Name: "transform-ref", Quick: []int{1}, Run: func(c *explore.Chooser, x *explore.Ctx, _ int) {
				p := c07Patterns[c.Choose(len(c07Patterns))]
				u := c07Updates[c.Choose(len(c07Updates))]
				d := c07Deletes[c.Choose(len(c07Deletes))]
				form := c.Choose(5)
				di := c.Choose(nd)
				c.Done()
				t := &ref.Transform{Pattern: p.node(), Update: u.node()}
				if d.node != nil {
					t.Delete = d.node()
				}
				var n ref.Node
				switch form {
				case 0:
					n = &ref.Apply{L: rvar(""), R: t}
				case 1:
					n = &ref.Call{Fn: t, Args: []ref.Node{rvar("")}}
				case 2:
					n = rcall("map", rpath(rname("o")), t)
				case 3:
					n = &ref.Apply{L: &ref.Apply{L: rvar(""), R: t}, R: &ref.Transform{Pattern: rpath(rname("o")), Update: robj("w", rnum(2)), Delete: rstr("v")}}
				default:
					n = &ref.Apply{L: rpath(rname("a")), R: t}
				}
				prog := ref.Text(n)
				doc, _ := c07Doc(di)
				want, werr := ref.Eval(n, impl.Clone(doc), ref.NewEnv(impl.Clone(doc)))
				got := c07Frame(x, prog, di)
				ok, checked := agrees(got, want, werr)
				if checked {
					x.Validated()
				}
				if !ok {
					in := jsonText(doc)
					x.Violation("value", "value:"+prog+"|"+in, explore.Detail{Program: prog, Input: in, Expected: predicted(want, werr), Observed: got.String()})
				}
				x.Outcome(got.Short())
				if got.Kind == impl.Value {
					x.Nontrivial()
				}
				x.Sample(func() string { return prog })
			}},
			{Name: "transform-values", Quick: []int{1, 2}, Run: func(c *explore.Chooser, x *explore.Ctx, nApps int) {
				// transforms are values: bound to variables, composed with ~> in every order, then applied directly,
				// through ~> and through $map - composing or applying one never changes how another one (or a later
				// application of the same one) treats the caller's document
				pats := []int{0, 1, 2}
				upds := []int{1, 3}
				mk := func() *ref.Transform {
					p := c07Patterns[pats[c.Choose(len(pats))]]
					u := c07Updates[upds[c.Choose(len(upds))]]
					d := c07Deletes[c.Choose(2)]
					t := &ref.Transform{Pattern: p.node(), Update: u.node()}
					if d.node != nil {
						t.Delete = d.node()
					}
					return t
				}
				t1, t2 := mk(), mk()
				comp := c.Choose(4)
				apps := make([]int, nApps)
				for i := range apps {
					apps[i] = c.Choose(6)
				}
				di := c.Choose(nd)
				c.Done()
				if nApps >= 2 && !x.Thorough() && di%4 != 0 {
					return // quick tier: two applications on every fourth document (the thorough tier takes them all)
				}
				stmts := []ref.Node{rassign("t1", t1), rassign("t2", t2)}
				switch comp {
				case 0:
					stmts = append(stmts, rassign("u", rvar("t1")))
				case 1:
					stmts = append(stmts, rassign("u", &ref.Apply{L: rvar("t2"), R: rvar("t1")}))
				case 2:
					stmts = append(stmts, rassign("u", &ref.Apply{L: rvar("t1"), R: rvar("t2")}))
				default:
					stmts = append(stmts, rassign("u", &ref.Apply{L: rvar("t1"), R: rvar("t1")}))
				}
				items := make([]ref.Node, nApps)
				for i, a := range apps {
					switch a {
					case 0:
						items[i] = rcall("t1", rvar(""))
					case 1:
						items[i] = rcall("t2", rvar(""))
					case 2:
						items[i] = rcall("u", rvar(""))
					case 3:
						items[i] = &ref.Apply{L: rvar(""), R: rvar("t1")}
					case 4:
						items[i] = &ref.Apply{L: rvar(""), R: rvar("u")}
					default:
						items[i] = rcall("map", rpath(rname("o")), rvar("t1"))
					}
				}
				n := &ref.Paren{Exprs: append(stmts, rarr(items...))}
				prog := ref.Text(n)
				doc, _ := c07Doc(di)
				want, werr := ref.Eval(n, impl.Clone(doc), ref.NewEnv(impl.Clone(doc)))
				got := c07Frame(x, prog, di)
				ok, checked := agrees(got, want, werr)
				if checked {
					x.Validated()
				}
				if !ok {
					in := jsonText(doc)
					x.Violation("value", "value:"+prog+"|"+in, explore.Detail{Program: prog, Input: in, Expected: predicted(want, werr), Observed: got.String()})
				}
				x.Outcome(got.Short())
				if got.Kind == impl.Value {
					x.Nontrivial()
				}
				x.Sample(func() string { return prog })
			}},
			{Name: "transform-literal-nulls", Quick: []int{1}, ShardDepth: -1, Run: func(c *explore.Chooser, x *explore.Ctx, _ int) {
				// the copy keeps the nulls of a value built by the program: "everything else is equal to the original"
				cases := []struct {
					prog string
					want interface{}
				}{
					{`($o := {"e": null, "a": {"k": 1}}; $o ~> |a|{"z": 1}|)`, map[string]interface{}{"e": nil, "a": map[string]interface{}{"k": 1.0, "z": 1.0}}},
					{`($o := {"e": null, "a": {}}; ($o ~> |nothing|{}|) = $o)`, true},
					{`($o := {"e": null, "a": {}}; $exists(($o ~> |a|{"z": 1}|).e))`, true},
					{`($o := {"l": [{"e": null}, {"e": 1}]}; $o ~> |l[e = null]|{"hit": true}|)`, map[string]interface{}{"l": []interface{}{map[string]interface{}{"e": nil, "hit": true}, map[string]interface{}{"e": 1.0}}}},
					{`($o := {"x": [null, 1, null]}; ($o ~> |$|{"y": 2}|).x)`, []interface{}{nil, 1.0, nil}},
					{`($o := {"x": {"deep": [null]}}; $o ~> |x|{}, "none"|)`, map[string]interface{}{"x": map[string]interface{}{"deep": []interface{}{nil}}}},
				}
				k := cases[c.Choose(len(cases))]
				c.Done()
				got := c16Expect(x, k.prog, map[string]interface{}{}, k.want, false, true)
				x.Outcome(got.Short())
				x.Nontrivial()
			}},
			{Name: "transform-escape", Quick: []int{1}, Run: func(c *explore.Chooser, x *explore.Ctx, _ int) {
				pats := []string{"$$", "$$.a", "$$.o", "$v", "$v.a", "$w", "$$.**", "[$$, $]", "$$.o[k=1]"}
				p := pats[c.Choose(len(pats))]
				u := c07Updates[c.Choose(len(c07Updates))]
				d := c07Deletes[c.Choose(len(c07Deletes))]
				form := c.Choose(4)
				di := c.Choose(nd)
				c.Done()
				t := "|" + p + "|" + u.src
				if d.src != "" {
					t += ", " + d.src
				}
				t += "|"
				prog := []string{"$ ~> " + t, "($w := o; $ ~> " + t + ")", "$map(o, " + t + ")", "a ~> " + t + " ~> " + t}[form]
				out := c07Frame(x, prog, di)
				x.Outcome(out.Short())
				if out.Kind == impl.Value {
					x.Nontrivial()
				}
			}},
		},
	})
}

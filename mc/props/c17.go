package props

import (
	"regexp"
	"strconv"
	"strings"

	"verif/mc/explore"
	"verif/mc/impl"
)

var c17Atoms = []string{"a", "b", ".", "[ab]", "[^a]", "(a)", "(a|b)", "(a)?", "(a(b))", "a*", "a+", "a?", "b*?", "^", "$", `\/`, "()"}

var c17Flags = []string{"", "i", "m", "s", "im"}

var c17SubjectUnits = []string{"a", "b", "A", "/", "\n"}

var c17TemplateUnits = []string{"x", "$0", "$1", "$2", "$12", "$$", "$", "$a", "$3", "$10", "$11"}

// refExpand is the template rule of the statement: $0 the match, $N the N-th
// group taking the longest group number that exists (absent groups empty), $$ a
// dollar sign, any other $ itself.
func refExpand(tpl string, match string, groups []string) string {
	var out strings.Builder
	for i := 0; i < len(tpl); i++ {
		c := tpl[i]
		if c != '$' {
			out.WriteByte(c)
			continue
		}
		if i+1 >= len(tpl) {
			out.WriteByte('$')
			break
		}
		n := tpl[i+1]
		switch {
		case n == '$':
			out.WriteByte('$')
			i++
		case n == '0':
			out.WriteString(match)
			i++
		case n >= '1' && n <= '9':
			j := i + 1
			for j < len(tpl) && tpl[j] >= '0' && tpl[j] <= '9' {
				j++
			}
			digits := tpl[i+1 : j]
			used := 1 // an absent group consumes one digit and yields nothing
			for l := len(digits); l >= 1; l-- {
				v, err := strconv.Atoi(digits[:l])
				if err == nil && v >= 1 && v <= len(groups) {
					out.WriteString(groups[v-1])
					used = l
					break
				}
			}
			i += used
		default:
			out.WriteByte('$')
		}
	}
	return out.String()
}

type c17Match struct {
	text       string
	start, end int
	groups     []string
}

func c17Matches(re *regexp.Regexp, s string) []c17Match {
	var out []c17Match
	for _, ix := range re.FindAllStringSubmatchIndex(s, -1) {
		m := c17Match{text: s[ix[0]:ix[1]], start: ix[0], end: ix[1]}
		for g := 1; g < len(ix)/2; g++ {
			if ix[2*g] < 0 {
				m.groups = append(m.groups, "")
			} else {
				m.groups = append(m.groups, s[ix[2*g]:ix[2*g+1]])
			}
		}
		out = append(out, m)
	}
	return out
}

func c17Groups(g []string) []interface{} {
	out := make([]interface{}, len(g))
	for i, s := range g {
		out[i] = s
	}
	return out
}

// c17Pattern builds a pattern of n atoms, optionally with one top-level alternation.
func c17Pattern(c *explore.Chooser, n int) string {
	atoms := make([]string, n)
	for i := range atoms {
		atoms[i] = c17Atoms[c.Choose(len(c17Atoms))]
	}
	alt := 0
	if n >= 2 {
		alt = c.Choose(n) // 0: none, k: a | after the k-th atom
	}
	var sb strings.Builder
	for i, a := range atoms {
		if alt > 0 && i == alt {
			sb.WriteString("|")
		}
		sb.WriteString(a)
	}
	return sb.String()
}

func init() {
	sizes := func(lo, hi int) []int {
		var s []int
		for i := lo; i <= hi; i++ {
			s = append(s, i)
		}
		return s
	}
	fixedSubjects := []string{"abab", "aAb/\n", "bbaa", "ba\nab", "AAAA/"}
	run := func(maxSubject int, flagSet []string, templates bool, anchored ...bool) func(c *explore.Chooser, x *explore.Ctx, n int) {
		return func(c *explore.Chooser, x *explore.Ctx, n int) {
			var pat string
			if len(anchored) > 0 {
				// the pattern wrapped in every combination of ^ and $ (whole-subject and one-sided anchoring)
				pre := []string{"^", ""}[c.Choose(2)]
				post := []string{"$", ""}[c.Choose(2)]
				pat = pre + c17Pattern(c, n) + post
			} else if templates {
				// the last two have 12 and 10 groups: two-digit references to groups that exist but are absent or empty
				// ... and three in which the same text can match with different groups taking part (position-dependent)
				pat = []string{"a", "(a)", "(a)(b)?", "(a(b))", "(a)|(b)", "()", "(a)(b)(A)", ".(.)?",
					"(a)(b)?()()()()()()()(A)?()(b)?", "(a)()()()()()()()()()", "(^a)|a", "(a$)|(a)", "a(?:(b)$|b)"}[c.Choose(13)]
			} else {
				pat = c17Pattern(c, n)
			}
			flags := flagSet[c.Choose(len(flagSet))]
			var s string
			k := 0
			if !templates {
				k = c.Choose(1 + len(fixedSubjects))
			}
			if k > 0 {
				s = fixedSubjects[k-1]
			} else {
				ms := maxSubject
				if templates && n >= 4 {
					ms = 2 // the longest templates on the shorter subjects
				}
				s = c16String(c, ms, c17SubjectUnits)
			}
			fn := 6
			if !templates {
				fn = []int{0, 1, 2, 3, 4, 5, 7, 8, 9}[c.Choose(9)]
			}
			var limit = -2 // -2: absent
			var tpl string
			switch fn {
			case 1, 4, 5, 7:
				limit = []int{-2, 0, 1, 2, 4, -1}[c.Choose(6)]
			}
			if fn == 6 {
				for i := 0; i < n; i++ {
					tpl += c17TemplateUnits[c.Choose(len(c17TemplateUnits))]
				}
				limit = []int{-2, 1}[c.Choose(2)]
			}
			c.Done()
			goSrc := pat
			if flags != "" {
				goSrc = "(?" + flags + ")" + pat
			}
			re, rerr := regexp.Compile(goSrc)
			lit := "/" + pat + "/" + flags
			doc := map[string]interface{}{"s": s}
			lim := ""
			if limit != -2 {
				lim = ", " + itoaSigned(limit)
			}
			if rerr != nil {
				got := impl.Run("$match(s, "+lit+")", doc)
				x.Eval()
				x.Validated()
				if got.Kind != impl.CompileError {
					x.Violation("value", "value:"+lit, explore.Detail{Program: "$match(s, " + lit + ")", Expected: "a compile error: the engine rejects the pattern (" + rerr.Error() + ")", Observed: got.String()})
				}
				x.Outcome("invalid pattern")
				return
			}
			ms := c17Matches(re, s)
			limited := ms
			if limit >= 0 && limit < len(ms) {
				limited = ms[:limit]
			}
			var got impl.Outcome
			switch fn {
			case 0, 1: // $match
				var want []interface{}
				for _, m := range limited {
					want = append(want, map[string]interface{}{"match": m.text, "index": float64(m.start), "groups": c17Groups(m.groups)})
				}
				if want == nil {
					want = []interface{}{}
				}
				got = c16Expect(x, "$match(s, "+lit+lim+")", doc, want, limit == -1, true)
			case 2:
				got = c16Expect(x, "$contains(s, "+lit+")", doc, len(ms) > 0, false, true)
			case 3, 4: // $split: the text between consecutive matches
				parts := []interface{}{}
				pos := 0
				for _, m := range ms {
					parts = append(parts, s[pos:m.start])
					pos = m.end
				}
				parts = append(parts, s[pos:])
				if limit >= 0 && limit < len(parts) {
					parts = parts[:limit]
				}
				got = c16Expect(x, "$split(s, "+lit+lim+")", doc, parts, limit == -1, true)
			case 5, 6: // $replace with a template
				if fn == 5 {
					tpl = "<$0|$1>"
				}
				var sb strings.Builder
				pos := 0
				for _, m := range limited {
					sb.WriteString(s[pos:m.start])
					sb.WriteString(refExpand(tpl, m.text, m.groups))
					pos = m.end
				}
				sb.WriteString(s[pos:])
				got = c16Expect(x, "$replace(s, "+lit+", \""+tpl+"\""+lim+")", doc, sb.String(), limit == -1, true)
			case 7: // $replace with a function
				var sb strings.Builder
				pos := 0
				for _, m := range limited {
					sb.WriteString(s[pos:m.start])
					g0 := ""
					if len(m.groups) > 0 {
						g0 = m.groups[0]
					}
					sb.WriteString("[" + m.text + ":" + g0 + ":" + strconv.Itoa(m.start) + "]")
					pos = m.end
				}
				sb.WriteString(s[pos:])
				got = c16Expect(x, `$replace(s, `+lit+`, function($m){"[" & $m.match & ":" & $m.groups[0] & ":" & $string($m.index) & "]"}`+lim+`)`, doc, sb.String(), limit == -1, true)
			case 8: // the literal as a function: first match object
				if len(ms) == 0 {
					got = c16Expect(x, lit+"(s)", doc, impl.Undef{}, false, true)
				} else {
					m := ms[0]
					want := map[string]interface{}{"m": m.text, "s": float64(m.start), "e": float64(m.end), "g": c17Groups(m.groups)}
					if len(m.groups) == 0 {
						delete(want, "g") // an empty array selected by a path is no value, and absent values are omitted (C01, C14)
					}
					got = c16Expect(x, lit+`(s).{"m": match, "s": start, "e": end, "g": groups}`, doc, want, false, true)
				}
			default: // the next chain, walked to exhaustion
				want := []interface{}{}
				for _, m := range ms {
					want = append(want, m.text, float64(m.start))
				}
				prog := `($walk := function($m){$exists($m) ? $append([$m.match, $m.start], $walk($m.next())) : []}; $walk(` + lit + `(s)))`
				got = c16Expect(x, prog, doc, want, false, true)
			}
			x.Outcome(got.Short())
			if len(ms) > 0 {
				x.Nontrivial()
			}
			x.Sample(func() string { return lit + " on " + strconv.Quote(s) })
		}
	}
	explore.Register(&explore.Prop{
		ID:        "C17",
		Title:     "Regex literals and regex functions agree with the regular-expression engine",
		Technique: "exhaustive enumeration of patterns (atoms x alternation) x flag sets x subjects x functions x templates x limits, with Go's regexp called directly by the harness as the oracle for matches and offsets and a reference template expander",
		Rule: "a case is one (pattern, flags, subject, function form, template, limit); oracle: matches, offsets and groups as regexp.FindAllStringSubmatchIndex finds them on the translated pattern, " +
			"split/replace recomputed from those indexes, the template rule of the statement; non-trivial when the pattern matches the subject at least once",
		Assumptions: []string{
			"the same RE2 engine is the oracle (the statement says 'agree with the underlying engine'): what is verified is literal scanning, flag translation, match-object plumbing, offsets, limits, template expansion",
			"offsets are compared on an ASCII subject alphabet, where byte and code-point offsets coincide",
		},
		Phases: []explore.Phase{
			{Name: "patterns-x-subjects", Quick: sizes(1, 2), Run: run(2, c17Flags, false)},
			{Name: "patterns-x-longer-subjects", Thorough: sizes(1, 2), Run: run(4, c17Flags, false)},
			{Name: "patterns3-x-subjects", Thorough: []int{3}, Run: run(3, []string{"", "im"}, false)},
			{Name: "templates", Quick: sizes(0, 3), Thorough: sizes(0, 4), Run: run(3, []string{""}, true)},
			{Name: "anchored-patterns", Quick: sizes(1, 1), Thorough: sizes(1, 2), Run: run(3, c17Flags, false, true)},
			{Name: "invalid-patterns", Quick: []int{1}, ShardDepth: 1, Run: func(c *explore.Chooser, x *explore.Ctx, _ int) {
				bad := []string{"//", "//i", "//m", "//s", "//ims", "/(/", "/a**/", "/[/", "/)/", "/a{2,1}/", "/(?P<n/", `/\/`, "/a", "/+/", "/[b-a]/", `/\8/`}
				lit := bad[c.Choose(len(bad))]
				form := c.Choose(3)
				c.Done()
				prog := []string{"$match(s, " + lit + ")", lit + "(s)", "$contains(s, " + lit + ")"}[form]
				got := impl.Run(prog, map[string]interface{}{"s": "a"})
				x.Eval()
				x.Validated()
				if got.Kind != impl.CompileError {
					x.Violation("value", "value:"+prog, explore.Detail{Program: prog, Expected: "a compile error (empty or invalid pattern)", Observed: got.String()})
				}
				x.Outcome(got.Short())
			}},
		},
	})
}

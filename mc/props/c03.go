package props

import (
	"math"
	"strings"

	"verif/mc/explore"
	"verif/mc/ref"
)

// operand is one value of the C03 operand alphabet.
type operand struct {
	src      string      // literal source text
	val      interface{} // value (ref form); ref.U for missing
	viaInput bool        // can also be supplied as an input member
}

func lit(src string, v interface{}) operand { return operand{src, v, true} }

var c03Operands = []operand{
	// numbers
	lit("0", 0.0), lit("(-0)", math.Copysign(0, -1)), lit("1", 1.0), lit("(-1)", -1.0), lit("2", 2.0), lit("0.5", 0.5),
	lit("(-2.5)", -2.5), lit("3", 3.0), lit("10", 10.0), lit("(-3)", -3.0), lit("1e308", 1e308), lit("(-1e308)", -1e308),
	lit("5e-324", 5e-324), lit("1e21", 1e21), lit("123456789012", 123456789012.0),
	// strings
	lit(`""`, ""), lit(`"a"`, "a"), lit(`"b"`, "b"), lit(`"ab"`, "ab"), lit(`"1"`, "1"), lit(`"10"`, "10"), lit(`"0"`, "0"),
	lit(`"é"`, "é"), lit(`"😀"`, "😀"), lit("\"￿\"", "￿"), lit(`"A"`, "A"),
	// booleans, null
	lit("true", true), lit("false", false), {"null", nil, false},
	// arrays
	lit("[]", []interface{}{}), lit("[1]", []interface{}{1.0}), lit("[1,2]", []interface{}{1.0, 2.0}), lit(`["a"]`, []interface{}{"a"}),
	lit("[[1]]", []interface{}{[]interface{}{1.0}}), lit("[0]", []interface{}{0.0}), lit(`[1,"a"]`, []interface{}{1.0, "a"}),
	lit("[null]", []interface{}{nil}), lit("[1,null]", []interface{}{1.0, nil}), lit(`["<&>"]`, []interface{}{"<&>"}),
	// objects
	lit("{}", map[string]interface{}{}), lit(`{"a":1}`, map[string]interface{}{"a": 1.0}), lit(`{"a":2}`, map[string]interface{}{"a": 2.0}),
	lit(`{"b":[]}`, map[string]interface{}{"b": []interface{}{}}), lit(`{"a":null}`, map[string]interface{}{"a": nil}),
	// functions (never from input)
	{"$sum", &ref.Func{Name: "sum"}, false}, {"(function($x){$x})", &ref.Func{Name: "lambda"}, false},
	// missing
	{"nothing", ref.U, false},
}

var c03Ops = []string{"+", "-", "*", "/", "%", "=", "!=", "<", "<=", ">", ">=", "in", "and", "or", "&"}

// small sub-alphabet for nested expressions (indices into c03Operands are looked up by source)
var c03Small = []string{"0", "1", "(-2.5)", `""`, `"a"`, `"1"`, "true", "[1,2]", `{"a":1}`, "nothing"}

// c03Medium: every kind with its edge members, for the thorough depth-2 product
var c03Medium = []string{"0", "(-0)", "1", "(-2.5)", "3", "1e308", "(-1e308)", "5e-324", `""`, `"a"`, `"1"`, `"é"`, "true", "false", "null",
	"[]", "[1,2]", `[1,"a"]`, "{}", `{"a":1}`, "$sum", "nothing"}

func c03Find(src string) operand {
	for _, o := range c03Operands {
		if o.src == src {
			return o
		}
	}
	panic("c03: no operand " + src)
}

// c03Operand yields the node for an operand and adds it to the input document
// under the given member name when supplied through the input.
func c03Operand(o operand, fromInput bool, member string, doc map[string]interface{}) ref.Node {
	if fromInput && o.viaInput {
		doc[member] = o.val
		return &ref.Path{Steps: []ref.Node{&ref.Name{N: member}}}
	}
	if ref.IsUndef(o.val) {
		return &ref.Path{Steps: []ref.Node{&ref.Name{N: "nothing"}}}
	}
	return &ref.Lit{Val: o.val, Src: o.src}
}

func c03Check(x *explore.Ctx, n ref.Node, doc map[string]interface{}) {
	prog := ref.Text(n)
	var input interface{} = doc
	want, werr := ref.Eval(n, input, ref.NewEnv(input))
	got := checkRef(x, prog, input, want, werr)
	x.Outcome(got.Short())
	if got.Kind == 0 {
		x.Nontrivial()
	}
	x.Sample(func() string { return prog + " on " + jsonText(input) + " => " + got.Short() })
}

func init() {
	nOp := len(c03Operands)
	explore.Register(&explore.Prop{
		ID:        "C03",
		Title:     "Operators compute their defined results; missing/wrong-typed operands handled",
		Technique: "exhaustive enumeration of the operator x operand x operand table (choice-tree DFS) against a reference operator model",
		Rule: "every (operator, left operand, right operand, supply mode) cell of the table is one case, plus depth-2 nestings, ranges, " +
			"conditionals with throwing branches; a case is non-trivial when the implementation returns a value (not 'no value' / error)",
		Assumptions: []string{
			"equality/membership between two functions: outcome not fixed by the statement, totality only; null equals null (structural equality of JSON values)",
			"when one operand is missing and the other has the wrong type the type error wins (pinned tree and jsonata-js agree)",
			"operands outside the 46-value alphabet are not covered",
		},
		Phases: []explore.Phase{
			{Name: "binary-table", Quick: []int{1}, Run: func(c *explore.Chooser, x *explore.Ctx, _ int) {
				op := c03Ops[c.Choose(len(c03Ops))]
				l := c03Operands[c.Choose(nOp)]
				r := c03Operands[c.Choose(nOp)]
				fromInput := c.Bool()
				c.Done()
				doc := map[string]interface{}{}
				n := &ref.Bin{Op: op, L: c03Operand(l, fromInput, "l", doc), R: c03Operand(r, fromInput, "r", doc)}
				c03Check(x, n, doc)
			}},
			{Name: "unary-minus", Quick: []int{1}, ShardDepth: 1, Run: func(c *explore.Chooser, x *explore.Ctx, _ int) {
				o := c03Operands[c.Choose(nOp)]
				fromInput := c.Bool()
				depth := 1 + c.Choose(3) // -x, -(-x), -(-(-x)): every negation checks its own operand
				c.Done()
				doc := map[string]interface{}{}
				var n ref.Node = c03Operand(o, fromInput, "l", doc)
				for i := 0; i < depth; i++ {
					n = &ref.Neg{X: n}
				}
				c03Check(x, n, doc)
			}},
			{Name: "range", Quick: []int{1}, Run: func(c *explore.Chooser, x *explore.Ctx, _ int) {
				var l, r operand
				switch c.Choose(3) {
				case 0:
					// all integer pairs -3..3
					a, b := c.Range(-3, 3), c.Range(-3, 3)
					l, r = lit(numSrc(a), float64(a)), lit(numSrc(b), float64(b))
				case 1:
					// short ranges around the edge of the exactly representable integers
					bases := []float64{9007199254740988, 9007199254740992, 1e16, -9007199254740996, 4294967294, 2147483646}
					b := bases[c.Choose(len(bases))]
					span := float64(c.Choose(6) * 2)
					src := func(v float64) string {
						if v < 0 {
							return "(" + ref.NumString(v) + ")"
						}
						return ref.NumString(v)
					}
					l, r = lit(src(b), b), lit(src(b+span), b+span)
				default:
					l = c03Operands[c.Choose(nOp)]
					r = c03Operands[c.Choose(nOp)]
				}
				fromInput := c.Bool()
				c.Done()
				doc := map[string]interface{}{}
				n := &ref.Arr{Items: []ref.Node{&ref.Rng{L: c03Operand(l, fromInput, "l", doc), R: c03Operand(r, fromInput, "r", doc)}}}
				c03Check(x, n, doc)
			}},
			{Name: "range-size-edge", Quick: []int{1}, Thorough: []int{1, 2}, ShardDepth: -1, Run: func(c *explore.Chooser, x *explore.Ctx, size int) {
				type edge struct {
					prog string
					want interface{}
					err  error
				}
				edges := []edge{
					{"[0..10000000]", nil, ref.E("eval:MaxRangeItems")},
					{"[1..10000001]", nil, ref.E("eval:MaxRangeItems")},
					{"[-5000000..5000000]", nil, ref.E("eval:MaxRangeItems")},
					{"[1..1e21]", nil, ref.E("eval:MaxRangeItems")},
					{"[-1e21..1e21]", nil, ref.E("eval:MaxRangeItems")},
				}
				if size == 2 {
					edges = []edge{
						{"$count([1..10000000])", 10000000.0, nil},
						{"$count([-4999999..5000000])", 10000000.0, nil},
					}
				}
				e := edges[c.Choose(len(edges))]
				c.Done()
				got := checkRef(x, e.prog, nil, e.want, e.err)
				x.Outcome(got.Short())
			}},
			{Name: "conditional", Quick: []int{1}, Run: func(c *explore.Chooser, x *explore.Ctx, _ int) {
				o := c03Operands[c.Choose(nOp)]
				fromInput := c.Bool()
				shape := c.Choose(4)
				c.Done()
				doc := map[string]interface{}{}
				boom := func(msg string) ref.Node {
					return &ref.Raw{Src: `$error("` + msg + `")`, Fn: func(interface{}, *ref.Env) (interface{}, error) { return nil, ref.E("other") }}
				}
				cond := c03Operand(o, fromInput, "l", doc)
				var n ref.Node
				switch shape {
				case 0:
					n = &ref.Cond{C: cond, T: &ref.Lit{Val: "T", Src: `"T"`}, E: &ref.Lit{Val: "E", Src: `"E"`}}
				case 1:
					n = &ref.Cond{C: cond, T: &ref.Lit{Val: "T", Src: `"T"`}}
				case 2: // the branch not chosen must not be evaluated
					n = &ref.Cond{C: cond, T: &ref.Lit{Val: "T", Src: `"T"`}, E: boom("else evaluated")}
				default:
					n = &ref.Cond{C: cond, T: boom("then evaluated"), E: &ref.Lit{Val: "E", Src: `"E"`}}
				}
				c03Check(x, n, doc)
			}},
			{Name: "computed-operands", Quick: []int{1}, ShardDepth: 2, Run: func(c *explore.Chooser, x *explore.Ctx, _ int) {
				// equality is by value: a value computed by a function (held in whatever Go type the function
				// returns) equals the same value written as a literal, bare and inside arrays and objects
				twins := [][2]string{
					{`$length("ab")`, `2`}, {`$count([1,2])`, `2`}, {`$keys({"a":1})`, `"a"`}, {`$split("a,b", ",")`, `["a","b"]`},
					{`$map([1,2], function($v,$i){$i})`, `[0,1]`}, {`$string(1)`, `"1"`}, {`$number("2")`, `2`}, {`$not(false)`, `true`},
					{`$append([1], [$count([1,2])])`, `[1,2]`}, {`$spread({"a":1})`, `[{"a":1}]`}, {`$merge([{"a":$length("z")}])`, `{"a":1}`},
					{`$sort([2,1])`, `[1,2]`}, {`$reverse(["a","b"])`, `["b","a"]`}, {`$lookup({"k":[1]}, "k")`, `[1]`}, {`$sum([1,1])`, `2`},
					{`$match("ab", /a/).index`, `0`}, {`$round(2.5)`, `2`}, {`$floor(2.5)`, `2`}, {`$zip([1],[2])`, `[[1,2]]`},
				}
				t := twins[c.Choose(len(twins))]
				form := c.Choose(10)
				c.Done()
				C, L := t[0], t[1]
				progs := []struct {
					src  string
					want bool
				}{
					{C + " = " + L, true}, {L + " = " + C, true}, {C + " != " + L, false}, {"[" + C + "] = [" + L + "]", true},
					{`{"k": ` + C + `} = {"k": ` + L + `}`, true}, {"[" + C + "] in [[" + L + "]]", true}, {"[" + L + "] in [[" + C + "]]", true},
					{"[[" + C + "]] != [[" + L + "]]", false}, {`[{"k": ` + C + `}] = [{"k": ` + L + `}]`, true}, {C + " = " + C, true},
				}
				p := progs[form]
				if strings.HasPrefix(L, "[") && (form == 3 || form == 5 || form == 6 || form == 7) {
					return // an array-valued function result is flattened by a surrounding array constructor, a literal is not
				}
				got := c16Expect(x, p.src, map[string]interface{}{}, p.want, false, true)
				x.Outcome(got.Short())
				x.Nontrivial()
			}},
			{Name: "nested-depth2", Quick: []int{1}, Thorough: []int{1, 2}, Run: func(c *explore.Chooser, x *explore.Ctx, size int) {
				alpha := c03Small
				if size == 2 {
					alpha = c03Medium
				}
				op1 := c03Ops[c.Choose(len(c03Ops))]
				op2 := c03Ops[c.Choose(len(c03Ops))]
				a := c03Find(alpha[c.Choose(len(alpha))])
				b := c03Find(alpha[c.Choose(len(alpha))])
				d := c03Find(alpha[c.Choose(len(alpha))])
				leftNest := c.Bool()
				c.Done()
				doc := map[string]interface{}{}
				na, nb, nd := c03Operand(a, false, "", doc), c03Operand(b, false, "", doc), c03Operand(d, false, "", doc)
				var n ref.Node
				if leftNest {
					n = &ref.Bin{Op: op2, L: &ref.Bin{Op: op1, L: na, R: nb}, R: nd}
				} else {
					n = &ref.Bin{Op: op1, L: na, R: &ref.Bin{Op: op2, L: nb, R: nd}}
				}
				c03Check(x, n, doc)
			}},
			{Name: "nested-depth3", Thorough: []int{1}, ShardDepth: 3, Run: func(c *explore.Chooser, x *explore.Ctx, _ int) {
				// every bracketing of three operators over a six-value alphabet
				tiny := []string{"1", "(-2.5)", `"a"`, "true", "[1,2]", "nothing"}
				ops := make([]string, 3)
				for i := range ops {
					ops[i] = c03Ops[c.Choose(len(c03Ops))]
				}
				vals := make([]ref.Node, 4)
				doc := map[string]interface{}{}
				for i := range vals {
					vals[i] = c03Operand(c03Find(tiny[c.Choose(len(tiny))]), false, "", doc)
				}
				shape := c.Choose(5)
				c.Done()
				b := func(op string, l, r ref.Node) ref.Node { return &ref.Bin{Op: op, L: l, R: r} }
				var n ref.Node
				switch shape {
				case 0:
					n = b(ops[2], b(ops[1], b(ops[0], vals[0], vals[1]), vals[2]), vals[3])
				case 1:
					n = b(ops[2], b(ops[0], vals[0], b(ops[1], vals[1], vals[2])), vals[3])
				case 2:
					n = b(ops[1], b(ops[0], vals[0], vals[1]), b(ops[2], vals[2], vals[3]))
				case 3:
					n = b(ops[0], vals[0], b(ops[2], b(ops[1], vals[1], vals[2]), vals[3]))
				default:
					n = b(ops[0], vals[0], b(ops[1], vals[1], b(ops[2], vals[2], vals[3])))
				}
				c03Check(x, n, doc)
			}},
		},
	})
}

func numSrc(n int) string {
	if n < 0 {
		return "(" + itoa(n) + ")"
	}
	return itoa(n)
}

package props

import (
	"encoding/base64"
	"net/url"
	"strconv"
	"strings"
	"unicode"

	"verif/mc/explore"
	"verif/mc/impl"
	"verif/mc/ref"
)

var c16Sigma = []string{"a", "B", "é", "䑁", "😀", " ", "\t", ",", "-", "%"}

func c16String(c *explore.Chooser, maxLen int, alphabet []string) string {
	n := c.Choose(maxLen + 1)
	var sb strings.Builder
	for i := 0; i < n; i++ {
		sb.WriteString(alphabet[c.Choose(len(alphabet))])
	}
	return sb.String()
}

// exactly-length variant (so that sizes partition the space)
func c16StringN(c *explore.Chooser, n int, alphabet []string) string {
	var sb strings.Builder
	for i := 0; i < n; i++ {
		sb.WriteString(alphabet[c.Choose(len(alphabet))])
	}
	return sb.String()
}

func runes(s string) []rune { return []rune(s) }

// ---- reference definitions on []rune ----------------------------------------

func refSubstring(s string, start int, length *int) string {
	r := runes(s)
	n := len(r)
	if length != nil && *length <= 0 {
		return ""
	}
	if start >= n {
		return ""
	}
	if start < 0 {
		start += n
		if start < 0 {
			start = 0
		}
	}
	r = r[start:]
	if length != nil && *length < len(r) {
		r = r[:*length]
	}
	return string(r)
}

func refPad(s string, width int, pad string) string {
	n := len(runes(s))
	w := width
	if w < 0 {
		w = -w
	}
	if n >= w {
		return s
	}
	if pad == "" {
		pad = " "
	}
	pr := runes(pad)
	fill := make([]rune, w-n)
	for i := range fill {
		fill[i] = pr[i%len(pr)]
	}
	if width < 0 {
		return string(fill) + s
	}
	return s + string(fill)
}

func refIndex(s, c []rune) int {
	for i := 0; i+len(c) <= len(s); i++ {
		ok := true
		for j := range c {
			if s[i+j] != c[j] {
				ok = false
				break
			}
		}
		if ok {
			return i
		}
	}
	return -1
}

func refBefore(s, c string) string {
	rs, rc := runes(s), runes(c)
	if i := refIndex(rs, rc); i >= 0 {
		return string(rs[:i])
	}
	return s
}

func refAfter(s, c string) string {
	rs, rc := runes(s), runes(c)
	if i := refIndex(rs, rc); i >= 0 {
		return string(rs[i+len(rc):])
	}
	return s
}

func refTrim(s string) string {
	var words []string
	var cur []rune
	for _, r := range s {
		if r == ' ' || r == '\t' || r == '\n' || r == '\r' || r == '\f' {
			if len(cur) > 0 {
				words = append(words, string(cur))
				cur = nil
			}
			continue
		}
		cur = append(cur, r)
	}
	if len(cur) > 0 {
		words = append(words, string(cur))
	}
	return strings.Join(words, " ")
}

func refSplit(s, c string) []interface{} {
	out := []interface{}{}
	rs, rc := runes(s), runes(c)
	if len(rc) == 0 {
		for _, r := range rs {
			out = append(out, string(r))
		}
		return out
	}
	for {
		i := refIndex(rs, rc)
		if i < 0 {
			out = append(out, string(rs))
			return out
		}
		out = append(out, string(rs[:i]))
		rs = rs[i+len(rc):]
	}
}

func refReplace(s, pat, rep string, limit int) string {
	rs, rp := runes(s), runes(pat)
	var out []rune
	n := 0
	for {
		i := -1
		if limit < 0 || n < limit {
			i = refIndex(rs, rp)
		}
		if i < 0 {
			out = append(out, rs...)
			return string(out)
		}
		out = append(out, rs[:i]...)
		out = append(out, runes(rep)...)
		rs = rs[i+len(rp):]
		n++
	}
}

func refCase(s string, upper bool) string {
	r := runes(s)
	for i := range r {
		if upper {
			r[i] = unicode.ToUpper(r[i])
		} else {
			r[i] = unicode.ToLower(r[i])
		}
	}
	return string(r)
}

// c16Eval runs a program on a document and compares with an expected value
// (want==nil with wantErr==false means: totality only).
func c16Expect(x *explore.Ctx, prog string, doc map[string]interface{}, want interface{}, wantErr bool, check bool) impl.Outcome {
	var got impl.Outcome
	in := jsonText(doc)
	x.Eval()
	x.Describe(func() string { return prog + " on " + in })
	if x.Guard(prog, in, func() { got = impl.Run(prog, doc) }) {
		return got
	}
	if !check {
		return got
	}
	x.Validated()
	bad := ""
	switch {
	case wantErr:
		if got.Kind != impl.Error {
			bad = "an error"
		}
	case ref.IsUndef(want):
		if got.Kind != impl.Undefined {
			bad = "no value"
		}
	default:
		if got.Kind != impl.Value || !impl.Equal(want, got.Val) {
			bad = "value " + impl.Render(want)
		}
	}
	if bad != "" {
		x.Violation("value", "value:"+prog+"|"+in, explore.Detail{Program: prog, Input: in, Expected: bad, Observed: got.String()})
	}
	return got
}

func itoaSigned(n int) string {
	if n < 0 {
		return "(" + strconv.Itoa(n) + ")"
	}
	return strconv.Itoa(n)
}

func init() {
	intParams := []int{-8, -7, -6, -5, -4, -3, -2, -1, 0, 1, 2, 3, 4, 5, 6, 7, 8}
	fracParams := []string{"(-1.5)", "0.5", "2.5", "(-0.5)", "(-4.25)", "(-2.5)", "1.9"}
	padUnits := []string{"x", "é", "😀"}
	sepUnits := c16Sigma
	sizes := func(max int) []int {
		var s []int
		for i := 0; i <= max; i++ {
			s = append(s, i)
		}
		return s
	}
	explore.Register(&explore.Prop{
		ID:        "C16",
		Title:     "String functions work on Unicode code points and satisfy inverse laws",
		Technique: "exhaustive enumeration of all strings up to a length over a 10-unit alphabet mixing 1-4 byte characters x integer parameters -8..8 x pad/separator strings, against []rune reference definitions and in-language inverse laws",
		Rule: "a case is one (function, string, parameters) tuple supplied through the input document, in direct and context-defaulting form; oracle: the reference definition on code points, " +
			"and the laws of the statement evaluated as JSONata equalities; non-trivial when the result is a non-empty value",
		Assumptions: []string{
			"fractional start/length/width parameters: the statement does not say how they are cast; checked for totality and law preservation only",
			"characters outside the alphabet (other scripts, combining marks) are not covered",
		},
		Phases: []explore.Phase{
			{Name: "length-case-trim-codecs", Quick: sizes(3), Thorough: sizes(4), Run: func(c *explore.Chooser, x *explore.Ctx, n int) {
				s := c16StringN(c, n, c16Sigma)
				fn := c.Choose(9)
				ctxForm := c.Bool()
				c.Done()
				doc := map[string]interface{}{"s": s}
				call := func(name string) string {
					if ctxForm {
						return "s.$" + name + "()"
					}
					return "$" + name + "(s)"
				}
				var got impl.Outcome
				switch fn {
				case 0:
					got = c16Expect(x, call("length"), doc, float64(len(runes(s))), false, true)
				case 1:
					got = c16Expect(x, call("uppercase"), doc, refCase(s, true), false, true)
				case 2:
					got = c16Expect(x, call("lowercase"), doc, refCase(s, false), false, true)
				case 3:
					got = c16Expect(x, call("trim"), doc, refTrim(s), false, true)
				case 4:
					got = c16Expect(x, call("base64encode"), doc, base64.StdEncoding.EncodeToString([]byte(s)), false, true)
				case 5:
					got = c16Expect(x, "$base64decode($base64encode(s)) = s", doc, true, false, true)
				case 6:
					got = c16Expect(x, "$decodeUrlComponent($encodeUrlComponent(s)) = s", doc, true, false, s != "�")
				case 7:
					got = c16Expect(x, call("encodeUrlComponent"), doc, url.QueryEscape(s), false, true)
				default:
					got = c16Expect(x, "$decodeUrl($encodeUrl(s)) = s", doc, nil, false, false) // $encodeUrl rejects strings that are not URLs
				}
				x.Outcome(got.Short())
				if got.Kind == impl.Value {
					x.Nontrivial()
				}
				x.Sample(func() string { return jsonText(doc) })
			}},
			{Name: "trim-other-spaces", Quick: sizes(3), Thorough: sizes(4), Run: func(c *explore.Chooser, x *explore.Ctx, n int) {
				// $trim works on the ASCII whitespace set (space, tab, line feed, carriage return, form feed), inside the
				// string and at its ends alike: other space characters (no-break space, vertical tab, em space, next
				// line) are ordinary characters in both places
				units := []string{"a", " ", "\t", "\u00a0", "\v", "\u2003", "\u0085"}
				s := c16StringN(c, n, units)
				c.Done()
				c16Expect(x, "$trim(s)", map[string]interface{}{"s": s}, refTrim(s), false, true)
				x.Nontrivial()
			}},
			{Name: "substring", Quick: sizes(3), Thorough: sizes(4), Run: func(c *explore.Chooser, x *explore.Ctx, n int) {
				s := c16StringN(c, n, c16Sigma)
				start := intParams[c.Choose(len(intParams))]
				li := c.Choose(len(intParams) + 1)
				ctxForm := c.Bool()
				c.Done()
				doc := map[string]interface{}{"s": s}
				args := itoaSigned(start)
				var lp *int
				if li > 0 {
					l := intParams[li-1]
					lp = &l
					args += ", " + itoaSigned(l)
				}
				prog := "$substring(s, " + args + ")"
				if ctxForm {
					prog = "s.$substring(" + args + ")"
				}
				got := c16Expect(x, prog, doc, refSubstring(s, start, lp), false, true)
				x.Outcome(got.Short())
				if got.Kind == impl.Value && got.Val != "" {
					x.Nontrivial()
				}
			}},
			{Name: "pad", Quick: sizes(3), Thorough: sizes(4), Run: func(c *explore.Chooser, x *explore.Ctx, n int) {
				s := c16StringN(c, n, c16Sigma)
				w := intParams[c.Choose(len(intParams))]
				hasPad := c.Bool()
				pad := ""
				if hasPad {
					pad = c16String(c, 3, padUnits)
				}
				form := c.Choose(3)
				c.Done()
				doc := map[string]interface{}{"s": s, "p": pad}
				args := itoaSigned(w)
				if hasPad {
					args += ", p"
				}
				want := refPad(s, w, pad)
				var got impl.Outcome
				switch form {
				case 0:
					got = c16Expect(x, "$pad(s, "+args+")", doc, want, false, true)
				case 1:
					if hasPad {
						args = itoaSigned(w) + ", $$.p"
					}
					got = c16Expect(x, "s.$pad("+args+")", doc, want, false, true)
				default: // law: $length($pad(s, n)) = max(|n|, $length(s))
					aw := w
					if aw < 0 {
						aw = -aw
					}
					got = c16Expect(x, "$length($pad(s, "+args+")) = $max(["+strconv.Itoa(aw)+", $length(s)])", doc, true, false, true)
				}
				x.Outcome(got.Short())
				if got.Kind == impl.Value {
					x.Nontrivial()
				}
			}},
			{Name: "two-strings", Quick: sizes(3), Thorough: sizes(4), Run: func(c *explore.Chooser, x *explore.Ctx, n int) {
				s := c16StringN(c, n, c16Sigma)
				sep := c16String(c, 2, sepUnits)
				fn := c.Choose(9)
				ctxForm := c.Bool()
				c.Done()
				doc := map[string]interface{}{"s": s, "c": sep}
				f := func(name, rest string) string {
					if ctxForm {
						return "s.$" + name + "($$.c" + rest + ")"
					}
					return "$" + name + "(s, c" + rest + ")"
				}
				has := refIndex(runes(s), runes(sep)) >= 0
				var got impl.Outcome
				switch fn {
				case 0:
					got = c16Expect(x, f("substringBefore", ""), doc, refBefore(s, sep), false, true)
				case 1:
					got = c16Expect(x, f("substringAfter", ""), doc, refAfter(s, sep), false, true)
				case 2:
					got = c16Expect(x, f("contains", ""), doc, has, false, true)
				case 3:
					var want interface{} = refSplit(s, sep)
					if ctxForm && len(refSplit(s, sep)) == 0 {
						want = ref.U // as a path step an empty array contributes nothing: a result with no items is no value (C01)
					}
					got = c16Expect(x, f("split", ""), doc, want, false, true)
				case 4: // law
					if sep == "" {
						return
					}
					got = c16Expect(x, "$join($split(s, c), c) = s", doc, true, false, true)
				case 5: // law
					if !has {
						return
					}
					got = c16Expect(x, "$substringBefore(s, c) & c & $substringAfter(s, c) = s", doc, true, false, true)
				case 6:
					if sep == "" {
						got = c16Expect(x, f("replace", `, "X"`), doc, nil, true, true)
					} else {
						got = c16Expect(x, f("replace", `, "X"`), doc, refReplace(s, sep, "X", -1), false, true)
					}
				case 7:
					got = c16Expect(x, "$join($split(s, c))", doc, strings.Join(toStrings(refSplit(s, sep)), ""), false, true)
				default:
					got = c16Expect(x, "$join([s, c, s], c)", doc, s+sep+sep+sep+s, false, true)
				}
				x.Outcome(got.Short())
				if got.Kind == impl.Value {
					x.Nontrivial()
				}
			}},
			{Name: "limits", Quick: sizes(3), Thorough: sizes(4), Run: func(c *explore.Chooser, x *explore.Ctx, n int) {
				s := c16StringN(c, n, c16Sigma[:6])
				sep := c16String(c, 1, sepUnits[:6])
				limit := []int{-1, 0, 1, 2, 3, 8}[c.Choose(6)]
				fn := c.Choose(2)
				c.Done()
				doc := map[string]interface{}{"s": s, "c": sep}
				var got impl.Outcome
				if fn == 0 {
					parts := refSplit(s, sep)
					if limit >= 0 && limit < len(parts) {
						parts = parts[:limit]
					}
					got = c16Expect(x, "$split(s, c, "+itoaSigned(limit)+")", doc, parts, limit < 0, true)
				} else {
					if sep == "" || limit < 0 {
						got = c16Expect(x, "$replace(s, c, \"é\", "+itoaSigned(limit)+")", doc, nil, true, true)
					} else {
						got = c16Expect(x, "$replace(s, c, \"é\", "+itoaSigned(limit)+")", doc, refReplace(s, sep, "é", limit), false, true)
					}
				}
				x.Outcome(got.Short())
				if got.Kind == impl.Value {
					x.Nontrivial()
				}
			}},
			{Name: "fractional-parameters", Quick: sizes(2), Thorough: sizes(3), Run: func(c *explore.Chooser, x *explore.Ctx, n int) {
				s := c16StringN(c, n, c16Sigma)
				p := fracParams[c.Choose(len(fracParams))]
				fn := c.Choose(4)
				c.Done()
				doc := map[string]interface{}{"s": s, "c": ","}
				// a fractional parameter counts as its integer part (the conversion to the function's integer
				// parameter drops the fraction, as the reference implementation's string indexing does): every
				// call must agree with the same call on the integer part
				f, _ := strconv.ParseFloat(strings.Trim(p, "()"), 64)
				t := itoaSigned(int(f))
				if int(f) < 0 {
					t = "(" + t + ")"
				}
				forms := [][2]string{
					{"$substring(s, " + p + ")", "$substring(s, " + t + ")"},
					{"$substring(s, 0, " + p + ")", "$substring(s, 0, " + t + ")"},
					{"$pad(s, " + p + ")", "$pad(s, " + t + ")"},
					{"$split(s, c, 2.5)", "$split(s, c, 2)"},
				}
				o1 := impl.Run(forms[fn][0], doc)
				o2 := impl.Run(forms[fn][1], doc)
				x.Eval()
				x.Eval()
				x.Validated()
				same := o1.Kind == o2.Kind && o1.Class == o2.Class && (o1.Kind != impl.Value || impl.Equal(o1.Val, o2.Val))
				if !same {
					x.Violation("value", "value:"+forms[fn][0]+"|"+jsonText(doc), explore.Detail{Program: forms[fn][0], Input: jsonText(doc),
						Expected: "the outcome of " + forms[fn][1] + ": " + o2.String(), Observed: o1.String()})
				}
				if o1.Kind == impl.Value {
					x.Nontrivial()
				}
				x.Outcome(o1.Short())
			}},
		},
	})
}

func toStrings(a []interface{}) []string {
	out := make([]string, len(a))
	for i, v := range a {
		out[i] = v.(string)
	}
	return out
}

package props

import (
	"strings"
	"sync"

	"verif/mc/explore"
	"verif/mc/impl"
	"verif/mc/ref"
)

// ---- documents -------------------------------------------------------------

// docsUpTo lists all null-free JSON values of depth <= d whose arrays and
// objects have <= 2 members, over the given leaves and keys (unique keys).
func docsUpTo(d int, leaves []interface{}, keys []string) []interface{} {
	level := append([]interface{}{}, leaves...)
	for i := 0; i < d; i++ {
		next := append([]interface{}{}, leaves...)
		// arrays of 0..2 members
		next = append(next, []interface{}{})
		for _, a := range level {
			next = append(next, []interface{}{a})
		}
		for _, a := range level {
			for _, b := range level {
				next = append(next, []interface{}{a, b})
			}
		}
		// objects of 0..2 members
		next = append(next, map[string]interface{}{})
		for _, k := range keys {
			for _, a := range level {
				next = append(next, map[string]interface{}{k: a})
			}
		}
		for i, k1 := range keys {
			for _, k2 := range keys[i+1:] {
				for _, a := range level {
					for _, b := range level {
						next = append(next, map[string]interface{}{k1: a, k2: b})
					}
				}
			}
		}
		level = next
	}
	return level
}

var c01DocsOnce sync.Once
var c01Docs2 []interface{}
var c01Level2 []interface{}

// c01NestCount is the size of the nesting family {"a": A}: A ranges over all
// arrays of depth <= 3 and width <= 2 over three leaves. Members are built on
// demand from their index (no 76k-document table per worker).
func c01NestCount() int { c01Docs(); n := len(c01Level2); return 1 + n + n*n }

func c01NestDoc(i int) interface{} {
	c01Docs()
	n := len(c01Level2)
	var a []interface{}
	switch {
	case i == 0:
		a = []interface{}{}
	case i <= n:
		a = []interface{}{c01Level2[i-1]}
	default:
		j := i - 1 - n
		a = []interface{}{c01Level2[j/n], c01Level2[j%n]}
	}
	return map[string]interface{}{"a": a}
}

func c01Docs() []interface{} {
	c01DocsOnce.Do(func() {
		c01Docs2 = docsUpTo(2, []interface{}{1.0, "x"}, []string{"a", "b"})
		leaves := []interface{}{1.0, map[string]interface{}{"b": 1.0}, map[string]interface{}{"b": []interface{}{1.0}}}
		level := leaves
		for d := 0; d < 2; d++ {
			arrays := []interface{}{[]interface{}{}}
			for _, a := range level {
				arrays = append(arrays, []interface{}{a})
			}
			for _, a := range level {
				for _, b := range level {
					arrays = append(arrays, []interface{}{a, b})
				}
			}
			level = append(append([]interface{}{}, leaves...), arrays...)
		}
		c01Level2 = level
	})
	return c01Docs2
}

// ---- step alphabet -----------------------------------------------------------

type c01Step struct {
	name string
	node func() ref.Node
	wild bool // result order follows Go's map order when objects have several members
}

var c01Steps = []c01Step{
	{"a", func() ref.Node { return rname("a") }, false},
	{"b", func() ref.Node { return rname("b") }, false},
	{"`a`", func() ref.Node { return &ref.Name{N: "a", Quoted: true} }, false},
	{"*", func() ref.Node { return &ref.Wild{} }, true},
	{"**", func() ref.Node { return &ref.Desc{} }, true},
	{"$", func() ref.Node { return rvar("") }, false},
	{"(a.b)", func() ref.Node { return &ref.Paren{Exprs: []ref.Node{rpath(rname("a"), rname("b"))}} }, false},
	{"($$)", func() ref.Node { return &ref.Paren{Exprs: []ref.Node{rvar("$")}} }, false},
	{"([a])", func() ref.Node { return &ref.Paren{Exprs: []ref.Node{&ref.Arr{Items: []ref.Node{rpath(rname("a"))}}}} }, false},
	{"(a[])", func() ref.Node {
		return &ref.Paren{Exprs: []ref.Node{&ref.Path{Steps: []ref.Node{rname("a")}, Keep: true, KeepAt: -1}}}
	}, false},
	{"[a]", func() ref.Node { return &ref.Arr{Items: []ref.Node{rpath(rname("a"))}} }, false},
	{"[a, b]", func() ref.Node { return &ref.Arr{Items: []ref.Node{rpath(rname("a")), rpath(rname("b"))}} }, false},
	{`{"k": a}`, func() ref.Node { return robj("k", rpath(rname("a"))) }, false},
	{"$count($)", func() ref.Node { return rcall("count", rvar("")) }, false},
	{"$string(a)", func() ref.Node { return rcall("string", rpath(rname("a"))) }, false},
}

// c01Compare runs the program and compares with the reference; wild: compare
// as multisets (member order of objects is unspecified).
func c01Compare(x *explore.Ctx, n ref.Node, input interface{}, wild bool) {
	prog := ref.Text(n)
	want, werr := ref.Eval(n, input, ref.NewEnv(input))
	var got impl.Outcome
	in := jsonText(input)
	x.Eval()
	x.Describe(func() string { return prog + " on " + in })
	if x.Guard(prog, in, func() { got = impl.Run(prog, input) }) {
		return
	}
	if _, unspec := werr.(*ref.Unspecified); unspec {
		x.Outcome("unspecified")
		return
	}
	x.Validated()
	ok := false
	// the order in which * and ** visit the members of an object with several members is Go's map order
	// (unspecified); with at most one member per object the document order is fixed and compared exactly
	if wild && c01MaxMembers(input) > 1 && werr == nil && !ref.IsUndef(want) && got.Kind == impl.Value {
		ok = impl.Equal(sortDeep(ref.Norm(want)), sortDeep(got.Val))
	} else {
		ok, _ = agrees(got, want, werr)
	}
	if alien, bad := impl.HasAlien(got.Val); got.Kind == impl.Value && bad {
		ok = false
		_ = alien
	}
	if !ok {
		x.Violation("value", "value:"+prog+"|"+in, explore.Detail{Program: prog, Input: in, Expected: predicted(want, werr), Observed: got.String()})
	}
	x.Outcome(got.Short())
	if got.Kind == impl.Value {
		x.Nontrivial()
	}
	x.Sample(func() string { return prog + " on " + in })
}

func c01MaxMembers(v interface{}) int {
	m := 0
	switch x := v.(type) {
	case []interface{}:
		for _, e := range x {
			if k := c01MaxMembers(e); k > m {
				m = k
			}
		}
	case map[string]interface{}:
		m = len(x)
		for _, e := range x {
			if k := c01MaxMembers(e); k > m {
				m = k
			}
		}
	}
	return m
}

// c01Build assembles the program: head kind 0 relative, 1 "$." , 2 "$$.", 3..5 a variable bound to a / $ / a nested literal.
func c01Build(steps []ref.Node, head int, keepAt int, keep bool) ref.Node {
	all := steps
	switch head {
	case 1:
		all = append([]ref.Node{rvar("")}, steps...)
	case 2:
		all = append([]ref.Node{rvar("$")}, steps...)
	case 3, 4, 5:
		all = append([]ref.Node{rvar("v")}, steps...)
	}
	if head > 0 && keepAt >= 0 {
		keepAt++
	}
	var p ref.Node = &ref.Path{Steps: all, Keep: keep, KeepAt: keepAt}
	if _, isName := all[0].(*ref.Name); len(all) == 1 && !keep && !isName {
		p = all[0] // a lone wildcard, variable, constructor or call is not a path: no mapping over an array input
	}
	var bind ref.Node
	switch head {
	case 3:
		bind = rpath(rname("a"))
	case 4:
		bind = rvar("")
	case 5:
		one := func() ref.Node { return robj("b", rnum(1)) }
		bind = &ref.Arr{Items: []ref.Node{&ref.Arr{Items: []ref.Node{one(), robj("a", &ref.Arr{Items: []ref.Node{rnum(2), rnum(3)}})}}, robj("a", robj("b", rstr("q")))}}
	default:
		return p
	}
	return &ref.Paren{Exprs: []ref.Node{&ref.Assign{Name: "v", Val: bind}, p}}
}

func init() {
	explore.Register(&explore.Prop{
		ID:        "C01",
		Title:     "Paths map over sequences, flatten one level, normalise empty/singleton results",
		Technique: "exhaustive enumeration of all paths up to a number of steps over 15 step kinds x 6 heads x keep-array marker positions x all null-free documents of depth <=2 (and the triple-nesting family), against a reference path evaluator transcribed from the statement",
		Rule: "a case is one (path program, document) pair; oracle: the reference evaluation (per-item mapping, one-level flattening, array-constructor steps as units, empty -> no value, singleton collapse unless [], " +
			"anchored heads, field/wildcard/descendant selection); results of wildcard steps compared as multisets; non-trivial when the path yields a value",
		Assumptions: []string{
			"interpretation clauses of DESIGN §5 C01: a single array-valued result of the last step is the path's value as it is; nested arrays of the context are transparent to field lookup",
			"JSON null inside documents is excluded by the statement",
			"paths longer than 4 steps and documents deeper than 3 are outside the bound",
		},
		Phases: []explore.Phase{
			{Name: "paths-x-docs", Quick: []int{1, 2}, Thorough: []int{1, 2, 3}, ShardDepth: 1, Run: func(c *explore.Chooser, x *explore.Ctx, n int) {
				docs := c01Docs()
				di := c.Choose(len(docs)) // the document first: shards are balanced over documents
				steps := make([]ref.Node, n)
				wild := false
				for i := range steps {
					s := c01Steps[c.Choose(len(c01Steps))]
					steps[i] = s.node()
					wild = wild || s.wild
				}
				head := c.Choose(6)
				keep := c.Bool()
				keepAt := -1
				if keep && n > 1 {
					keepAt = c.Choose(n) - 1 // -1: after the last step, otherwise after an inner step
				}
				c.Done()
				if n >= 2 && !x.Thorough() && (di%3 != head%3) {
					return // quick tier: every third document per head (the thorough tier takes them all)
				}
				c01Compare(x, c01Build(steps, head, keepAt, keep), docs[di], wild)
			}},
			{Name: "names-x-nesting", Quick: []int{1, 2, 3}, Thorough: []int{1, 2, 3, 4}, ShardDepth: 1, Run: func(c *explore.Chooser, x *explore.Ctx, n int) {
				di := c.Choose(c01NestCount())
				names := []string{"a", "b", "c"}
				steps := make([]ref.Node, n)
				for i := range steps {
					steps[i] = rname(names[c.Choose(len(names))])
				}
				if n > 2 && steps[0].(*ref.Name).N != "a" {
					c.Done()
					return // documents of this family only have a at the top
				}
				head := c.Choose(3)
				keep := c.Bool()
				c.Done()
				if n >= 2 && !x.Thorough() && di%4 != 0 {
					return // quick tier: every fourth document of the family for the longer paths
				}
				c01Compare(x, c01Build(steps, head, -1, keep), c01NestDoc(di), false)
			}},
			{Name: "wildcards-x-nesting", Quick: []int{1, 2}, ShardDepth: 3, Run: func(c *explore.Chooser, x *explore.Ctx, n int) {
				pool := []c01Step{c01Steps[0], c01Steps[1], c01Steps[3], c01Steps[4], c01Steps[5], c01Steps[13]}
				steps := make([]ref.Node, n)
				for i := range steps {
					steps[i] = pool[c.Choose(len(pool))].node()
				}
				keep := c.Bool()
				di := c.Choose(c01NestCount() / 7)
				c.Done()
				c01Compare(x, c01Build(steps, 0, -1, keep), c01NestDoc(di*7), true)
			}},
		},
	})
	_ = strings.Join
}

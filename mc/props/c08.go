package props

import (
	"fmt"
	"strings"
	"sync"

	jsonata "github.com/blues/jsonata-go"
	"github.com/blues/jsonata-go/jparse"

	"verif/mc/explore"
)

var c08Atoms = []string{
	"[", "]", "{", "}", "(", ")", ".", ",", ";", ":", "?", "+", "-", "*", "/", "%", "|", "=", "<", ">", "^", "&",
	"!=", "<=", ">=", "..", "~>", ":=", "**", "!", "~",
	"and", "or", "in", "true", "false", "null", "function", "λ", "True", "FALSE", "Null", "And", "IN", "Function",
	"a", "$", "$x", "1", "0.", "1e", "1e+", "9e999", `"s"`, `'s'`, `"\u"`, `"\ud800"`, `"\q"`, "`n`", "`", "/r/", "/(/", "/r/x", `"`,
	"é", "䑁", "😀", "\xff", "\n",
	// tokens whose text looks like the placeholders of the error-message templates
	`"{{"`, `"{{token}}"`, "`{{hint}}`",
}

var c08Reduced = []string{"[", "]", "(", ")", "{", "}", ".", ":", "?", "-", "*", "/", "|", "<", ">", "^", "!", "~", "=", "&",
	"a", "$", "1", "0.", "1e", `"`, "`", "é", "䑁", "\xff", "function", "in"}

// c08Wrappers place a program (@) in every kind of child position.
var c08Wrappers = []string{"@", "(@)", "[@]", "{\"k\": @}", "$ ~> |@|{}|", "$ ~> |a|@|", "$ ~> |a|{}, @|", "a[@]", "a.(@)", "a^(@)", "a{\"k\": @}",
	"@ ? 1 : 2", "true ? @", "function($x){@}(1)", "$count(@)", "$x := @", "-(@)", "(@) & 1", "[(@)..2]", "$map(a, function($v){@})"}

var c08Doc = map[string]interface{}{"a": []interface{}{1.0, map[string]interface{}{"b": "x"}}, "n": "s"}

var validCorpusOnce sync.Once
var validCorpusList []string

// validCorpus is the subset of corpus that compiles on the current tree.
func validCorpus() []string {
	validCorpusOnce.Do(func() {
		for _, p := range corpus {
			if _, err := jsonata.Compile(p); err == nil {
				validCorpusList = append(validCorpusList, p)
			}
		}
	})
	return validCorpusList
}

// c08Check is the totality oracle for one input string.
func c08Check(x *explore.Ctx, src string, evalToo bool) {
	fail := func(what, observed string) {
		x.Violation("value", "compile:"+what+":"+fmt.Sprintf("%q", src), explore.Detail{Program: fmt.Sprintf("%q", src),
			Expected: "Compile/Parse return (expr, nil) or (nil, *jparse.Error with defined type, message and position in [0,len])", Observed: observed})
	}
	x.Eval()
	node, perr := jparse.Parse(src)
	e, cerr := jsonata.Compile(src)
	if (node == nil) == (perr == nil) {
		fail("parse-shape", fmt.Sprintf("Parse returned node=%v err=%v", node, perr))
	}
	if (e == nil) == (cerr == nil) {
		fail("compile-shape", fmt.Sprintf("Compile returned expr=%v err=%v", e, cerr))
	}
	if (perr == nil) != (cerr == nil) {
		fail("parse-vs-compile", fmt.Sprintf("Parse err=%v but Compile err=%v", perr, cerr))
	}
	for _, err := range []error{perr, cerr} {
		if err == nil {
			continue
		}
		pe, ok := err.(*jparse.Error)
		if !ok {
			fail("error-type", fmt.Sprintf("error of type %T: %v", err, err))
			continue
		}
		if pe.Type < jparse.ErrSyntaxError || pe.Type > jparse.ErrInvalidParamType {
			fail("error-kind", fmt.Sprintf("undefined error type %d", pe.Type))
		}
		if pe.Error() == "" || strings.HasPrefix(pe.Error(), "parser.Error: unknown error type") {
			fail("error-message", fmt.Sprintf("message %q", pe.Error()))
		}
		if pe.Position < 0 || pe.Position > len(src) {
			fail("error-position", fmt.Sprintf("position %d outside [0,%d] (%v)", pe.Position, len(src), pe))
		}
	}
	// MustCompile panics exactly when Compile errs
	func() {
		panicked := false
		func() {
			defer func() {
				if r := recover(); r != nil {
					panicked = true
				}
			}()
			jsonata.MustCompile(src)
		}()
		if panicked != (cerr != nil) {
			fail("mustcompile", fmt.Sprintf("MustCompile panicked=%v, Compile err=%v", panicked, cerr))
		}
	}()
	x.Validated()
	if cerr != nil {
		x.Outcome(fmt.Sprintf("error type %d", cerr.(*jparse.Error).Type))
		return
	}
	x.Nontrivial()
	x.Outcome("ok")
	// a returned expression can be printed and evaluated
	_ = e.String()
	_ = node.String()
	if evalToo {
		e.Eval(nil)
		e.Eval(c08Doc)
	}
}

var c08EditAlphabet = []string{"a", "$", "1", "0", ".", ",", ";", ":", "?", "+", "-", "*", "/", "%", "|", "=", "<", ">", "!", "~", "^", "&",
	"(", ")", "[", "]", "{", "}", `"`, "'", "`", "\\", "u", "e", " ", "\n", "é", "😀", "\xff", "\x00", "T", "N", "b"}

var c08SigAlphabet = []string{"n", "s", "b", "l", "a", "o", "f", "j", "x", "(", ")", "<", ">", "?", "+", "-", ":", "!", "é"}

func init() {
	explore.Register(&explore.Prop{
		ID:        "C08",
		Title:     "Compile is total: an expression or a typed parse error, never a panic or hang",
		Technique: "exhaustive enumeration of bounded input strings (token soup, all short byte strings, single-edit neighbourhoods, signature/literal grammars) in watchdogged worker processes",
		Rule: "every string of the bounded grammars is one case; the oracle is totality and result shape; a case is non-trivial when it compiles " +
			"(it is then also printed and evaluated on two inputs)",
		Assumptions: []string{
			"strings longer than the bounds and multi-edit mutations are not covered",
			"errors raised by the optimiser carry position 0, which is inside the input and accepted",
		},
		Phases: []explore.Phase{
			{Name: "token-soup", Quick: []int{1, 2, 3}, Thorough: []int{1, 2, 3, 4}, Run: func(c *explore.Chooser, x *explore.Ctx, size int) {
				toks := make([]string, size)
				for i := range toks {
					toks[i] = c08Atoms[c.Choose(len(c08Atoms))]
				}
				sep := ""
				if size > 1 && c.Bool() {
					sep = " "
				}
				c.Done()
				src := strings.Join(toks, sep)
				c08Check(x, src, true)
				x.Sample(func() string { return fmt.Sprintf("%q", src) })
			}},
			{Name: "token-soup-adjacent-reduced", Quick: []int{4}, Thorough: []int{4, 5}, Run: func(c *explore.Chooser, x *explore.Ctx, size int) {
				// tokens without separators over a reduced alphabet (the lexer's
				// look-ahead defects need adjacent multi-byte characters)
				var sb strings.Builder
				for i := 0; i < size; i++ {
					sb.WriteString(c08Reduced[c.Choose(len(c08Reduced))])
				}
				c.Done()
				c08Check(x, sb.String(), true)
			}},
			{Name: "all-bytes", Quick: []int{0, 1, 2}, Thorough: []int{0, 1, 2, 3}, Run: func(c *explore.Chooser, x *explore.Ctx, size int) {
				b := make([]byte, size)
				for i := range b {
					b[i] = byte(c.Choose(256))
				}
				c.Done()
				c08Check(x, string(b), true)
			}},
			{Name: "single-edit", Quick: []int{1}, Run: func(c *explore.Chooser, x *explore.Ctx, _ int) {
				progs := validCorpus()
				p := progs[c.Choose(len(progs))]
				pos := c.Choose(len(p) + 1)
				var src string
				switch kind := c.Choose(5); kind {
				case 0: // delete byte
					if pos >= len(p) {
						src = p
					} else {
						src = p[:pos] + p[pos+1:]
					}
				case 1: // duplicate byte
					if pos >= len(p) {
						src = p
					} else {
						src = p[:pos+1] + p[pos:]
					}
				case 2: // truncate
					src = p[:pos]
				case 3: // insert
					src = p[:pos] + c08EditAlphabet[c.Choose(len(c08EditAlphabet))] + p[pos:]
				default: // replace
					ch := c08EditAlphabet[c.Choose(len(c08EditAlphabet))]
					if pos >= len(p) {
						src = p + ch
					} else {
						src = p[:pos] + ch + p[pos+1:]
					}
				}
				c.Done()
				// evaluation of mutated programs is left to C09's bounded grammars:
				// an edit can turn a small range or pad into an unbounded one
				c08Check(x, src, false)
				x.Sample(func() string { return fmt.Sprintf("%q (edit of %q)", src, p) })
			}},
			{Name: "corpus-eval", Quick: []int{1}, ShardDepth: 1, Run: func(c *explore.Chooser, x *explore.Ctx, _ int) {
				// every valid program of the corpus, alone and as a sub-expression of
				// each composite form, compiles, prints and evaluates
				progs := validCorpus()
				p := progs[c.Choose(len(progs))]
				wrap := c.Choose(len(c08Wrappers))
				c.Done()
				src := strings.Replace(c08Wrappers[wrap], "@", p, -1)
				c08Check(x, src, true)
			}},
			{Name: "signature", Quick: []int{0, 1, 2, 3, 4}, Thorough: []int{0, 1, 2, 3, 4, 5}, Run: func(c *explore.Chooser, x *explore.Ctx, size int) {
				var sb strings.Builder
				for i := 0; i < size; i++ {
					sb.WriteString(c08SigAlphabet[c.Choose(len(c08SigAlphabet))])
				}
				nParams := c.Choose(4)
				c.Done()
				params := []string{"", "$x", "$x,$y", "$x,$y,$z"}[nParams]
				src := "function(" + params + ")<" + sb.String() + ">{$x}"
				c08Check(x, src, true)
				x.Sample(func() string { return src })
			}},
			{Name: "string-literal", Quick: []int{0, 1, 2, 3}, Thorough: []int{0, 1, 2, 3, 4}, Run: func(c *explore.Chooser, x *explore.Ctx, size int) {
				units := []string{"a", "é", "😀", `\`, `"`, `'`, `\"`, `\\`, `\n`, `\u`, `é`, `\ud83d`, `\ude00`, `\u12`, `\uZZZZ`, `\q`, "\n", "\xff", "0", "u"}
				var sb strings.Builder
				for i := 0; i < size; i++ {
					sb.WriteString(units[c.Choose(len(units))])
				}
				q := []string{`"`, `'`}[c.Choose(2)]
				closed := c.Bool()
				c.Done()
				src := q + sb.String()
				if closed {
					src += q
				}
				c08Check(x, src, true)
			}},
			{Name: "number-literal", Quick: []int{1, 2, 3, 4, 5}, Thorough: []int{1, 2, 3, 4, 5, 6}, Run: func(c *explore.Chooser, x *explore.Ctx, size int) {
				units := []string{"0", "1", "9", ".", "e", "E", "+", "-", "x"}
				var sb strings.Builder
				for i := 0; i < size; i++ {
					sb.WriteString(units[c.Choose(len(units))])
				}
				c.Done()
				c08Check(x, sb.String(), true)
			}},
			{Name: "regex-literal", Quick: []int{0, 1, 2, 3, 4}, Thorough: []int{0, 1, 2, 3, 4, 5}, Run: func(c *explore.Chooser, x *explore.Ctx, size int) {
				units := []string{"a", "(", ")", "[", "]", "{", "}", `\`, "/", "*", "|", "\n", "é", "i", "^"}
				var sb strings.Builder
				for i := 0; i < size; i++ {
					sb.WriteString(units[c.Choose(len(units))])
				}
				tail := []string{"", "/", "/i", "/ims", "/x"}[c.Choose(5)]
				head := []string{"/", "a ~> /", `$match("a", /`}[c.Choose(3)]
				c.Done()
				src := head + sb.String() + tail
				if strings.HasPrefix(head, "$match") {
					src += ")"
				}
				c08Check(x, src, true)
			}},
			{Name: "quoted-name", Quick: []int{0, 1, 2, 3}, Thorough: []int{0, 1, 2, 3, 4}, Run: func(c *explore.Chooser, x *explore.Ctx, size int) {
				units := []string{"a", " ", "`", "\n", "é", "😀", "\xff", ".", `\`, `"`}
				var sb strings.Builder
				for i := 0; i < size; i++ {
					sb.WriteString(units[c.Choose(len(units))])
				}
				closed := c.Bool()
				suffix := []string{"", ".b", "[0]"}[c.Choose(3)]
				c.Done()
				src := "`" + sb.String()
				if closed {
					src += "`" + suffix
				}
				c08Check(x, src, true)
			}},
		},
	})
}

package props

import (
	"fmt"
	"strings"

	"verif/mc/explore"
	"verif/mc/impl"
	"verif/mc/ref"
)

type c14Expr struct {
	src  string
	node func() ref.Node
}

var c14KeyExprs = []c14Expr{
	{"g", func() ref.Node { return rpath(rname("g")) }},
	{`"lit"`, func() ref.Node { return rstr("lit") }},
	{`g & "x"`, func() ref.Node { return &ref.Bin{Op: "&", L: rpath(rname("g")), R: rstr("x")} }},
	{"$string(id)", func() ref.Node { return rcall("string", rpath(rname("id"))) }},
	{`"p"`, func() ref.Node { return rstr("p") }},
}

var c14ValExprs = []c14Expr{
	{"v", func() ref.Node { return rpath(rname("v")) }},
	{"id", func() ref.Node { return rpath(rname("id")) }},
	{"$sum(v)", func() ref.Node { return rcall("sum", rpath(rname("v"))) }},
	{"$count($)", func() ref.Node { return rcall("count", rvar("")) }},
	{`{"n": id}`, func() ref.Node { return robj("n", rpath(rname("id"))) }},
	{"[id]", func() ref.Node { return &ref.Arr{Items: []ref.Node{rpath(rname("id"))}} }},
	{"$", func() ref.Node { return rvar("") }},
	{`{"items": $, "n": $count($)}`, func() ref.Node {
		return &ref.Obj{Pairs: [][2]ref.Node{{rstr("items"), rvar("")}, {rstr("n"), rcall("count", rvar(""))}}}
	}},
}

func c14Items(c *explore.Chooser, n int, fullV bool) []interface{} {
	gs := []interface{}{"p", "q", "r", nil, 1.0}
	vs := []interface{}{1.0, []interface{}{1.0, 2.0}, nil}
	items := make([]interface{}, n)
	for i := range items {
		o := map[string]interface{}{"id": float64(i)}
		if g := gs[c.Choose(len(gs))]; g != nil {
			o["g"] = g
		}
		if fullV {
			if v := vs[c.Choose(len(vs))]; v != nil {
				o["v"] = impl.Clone(v)
			}
		} else {
			o["v"] = float64(i + 1)
		}
		items[i] = o
	}
	return items
}

// c14Objects: null-free objects with <= 3 members over keys a,b,c.
func c14Object(c *explore.Chooser) map[string]interface{} {
	vals := []interface{}{nil, 1.0, "x", []interface{}{1.0}, map[string]interface{}{"a": 1.0}}
	o := map[string]interface{}{}
	for _, k := range []string{"a", "b", "c"} {
		if v := vals[c.Choose(len(vals))]; v != nil {
			o[k] = impl.Clone(v)
		}
	}
	return o
}

// c14Unordered compares as multisets at every level.
func c14Unordered(x *explore.Ctx, prog string, doc interface{}, want interface{}, wantErr bool) impl.Outcome {
	var got impl.Outcome
	in := jsonText(doc)
	x.Eval()
	x.Describe(func() string { return prog + " on " + in })
	if x.Guard(prog, in, func() { got = impl.Run(prog, doc) }) {
		return got
	}
	x.Validated()
	bad := ""
	switch {
	case wantErr:
		if got.Kind != impl.Error {
			bad = "an error"
		}
	case ref.IsUndef(want):
		if got.Kind != impl.Undefined {
			bad = "no value"
		}
	default:
		if got.Kind != impl.Value || !impl.Equal(sortDeep(ref.Norm(want)), sortDeep(got.Val)) {
			bad = "value (member order ignored) " + impl.Render(ref.Norm(want))
		}
	}
	if bad != "" {
		x.Violation("value", "value:"+prog+"|"+in, explore.Detail{Program: prog, Input: in, Expected: bad, Observed: got.String()})
	}
	x.Outcome(got.Short())
	if got.Kind == impl.Value {
		x.Nontrivial()
	}
	x.Sample(func() string { return prog + " on " + in })
	return got
}

func collapse(list []interface{}) interface{} {
	switch len(list) {
	case 0:
		return ref.U
	case 1:
		return list[0]
	}
	return list
}

func init() {
	sizes := func(lo, hi int) []int {
		var s []int
		for i := lo; i <= hi; i++ {
			s = append(s, i)
		}
		return s
	}
	explore.Register(&explore.Prop{
		ID:        "C14",
		Title:     "Object construction, grouping and object functions share one object model",
		Technique: "exhaustive enumeration of all small arrays of keyed items x constructors of 1-3 key/value pairs x three grouping forms against a reference grouping (partition) model, and of all objects with <=3 members for the object functions and their algebraic identities",
		Rule: "a case is one (items, constructor) or (object(s), function, callback) tuple; oracle: one member per distinct key string whose value is evaluated over exactly the items with that key, in order; " +
			"absent values omitted; non-string and duplicate keys are errors; object functions compared as unordered objects/multisets and through in-language identities; non-trivial when a value is returned",
		Assumptions: []string{
			"an absent grouping key is not settled by the statement (the port reports an error, jsonata-js skips the item): totality only",
			"more than 4 distinct keys and more than 3 pairs are outside the bound",
		},
		Phases: []explore.Phase{
			{Name: "grouping", Quick: sizes(0, 3), Thorough: sizes(0, 4), ShardDepth: 4, Run: func(c *explore.Chooser, x *explore.Ctx, n int) {
				items := c14Items(c, n, n <= 3)
				nPairs := 1
				if n <= 2 || x.Thorough() {
					nPairs = 1 + c.Choose(2)
				}
				var pairs [][2]ref.Node
				for p := 0; p < nPairs; p++ {
					k := c14KeyExprs[c.Choose(len(c14KeyExprs))]
					v := c14ValExprs[c.Choose(len(c14ValExprs))]
					pairs = append(pairs, [2]ref.Node{k.node(), v.node()})
				}
				form := c.Choose(3)
				c.Done()
				c14Group(x, items, pairs, form)
			}},
			{Name: "grouping-three-pairs", Thorough: sizes(1, 3), ShardDepth: 4, Run: func(c *explore.Chooser, x *explore.Ctx, n int) {
				items := c14Items(c, n, false)
				var pairs [][2]ref.Node
				for p := 0; p < 3; p++ {
					k := c14KeyExprs[c.Choose(len(c14KeyExprs))]
					v := c14ValExprs[c.Choose(3)]
					pairs = append(pairs, [2]ref.Node{k.node(), v.node()})
				}
				c.Done()
				c14Group(x, items, pairs, 0)
			}},
			{Name: "grouping-nothing", Quick: []int{1}, ShardDepth: -1, Run: func(c *explore.Chooser, x *explore.Ctx, _ int) {
				// a grouped expression that selects no item: no item produces a key, and a literal key sees no items
				cases := []struct {
					prog string
					want interface{}
				}{
					{`a[g = "zz"]{g: v}`, map[string]interface{}{}},
					{`a[g = "zz"]{$string(id): v}`, map[string]interface{}{}},
					{`nothing{"lit": $count($)}`, map[string]interface{}{"lit": 0.0}},
					{`a[id > 9]{"lit": $count($), g: v}`, map[string]interface{}{"lit": 0.0}},
					{`a[id > 9]{g: $count($)}`, map[string]interface{}{}},
					{`$count($keys(a[id > 9]{g: v}))`, 0.0},
					{`a[id > 9]{"lit": $, "b": 1}`, map[string]interface{}{"b": 1.0}}, // a literal key over no items sees no value, not an empty array
					{`a[id > 9]{"e": $exists($)}`, map[string]interface{}{"e": false}},
					{`a[id > 9]{"t": $type($)}`, map[string]interface{}{}},
				}
				k := cases[c.Choose(len(cases))]
				c.Done()
				doc := map[string]interface{}{"a": []interface{}{map[string]interface{}{"id": 0.0, "g": "p", "v": 1.0}, map[string]interface{}{"id": 1.0, "g": "q", "v": 2.0}}}
				c14Unordered(x, k.prog, doc, k.want, false)
			}},
			{Name: "partition-facts", Quick: sizes(0, 4), Thorough: sizes(0, 5), ShardDepth: 4, Run: func(c *explore.Chooser, x *explore.Ctx, n int) {
				// every item appears in exactly one group, in input order (ids make it observable)
				gs := []string{"p", "q", "r", "s"}
				items := make([]interface{}, n)
				want := map[string]interface{}{}
				for i := range items {
					g := gs[c.Choose(len(gs))]
					items[i] = map[string]interface{}{"id": float64(i), "g": g}
					l, _ := want[g].([]interface{})
					want[g] = append(l, float64(i))
				}
				c.Done()
				for k, v := range want {
					if l := v.([]interface{}); len(l) == 1 {
						want[k] = l[0]
					}
				}
				doc := map[string]interface{}{"a": items}
				if n == 0 {
					return // grouping of no value is not settled by the statement (C09 covers totality)
				}
				c14Unordered(x, "a{g: id}", doc, want, false)
				c14Unordered(x, "a{g: $count($)}.*  ~> $sum()", doc, float64(n), false)
			}},
			{Name: "object-functions", Quick: []int{1}, ShardDepth: 3, Run: func(c *explore.Chooser, x *explore.Ctx, _ int) {
				o := c14Object(c)
				fn := c.Choose(12)
				arity := 1 + c.Choose(3)
				c.Done()
				doc := map[string]interface{}{"o": o}
				keys := []interface{}{}
				for _, k := range []string{"a", "b", "c"} {
					if _, ok := o[k]; ok {
						keys = append(keys, k)
					}
				}
				cb := []string{`function($v){$v}`, `function($v,$k){$k}`, `function($v,$k,$o){$count($keys($o))}`}[arity-1]
				cbApply := func(k string) interface{} {
					switch arity {
					case 1:
						return o[k]
					case 2:
						return k
					}
					return float64(len(keys))
				}
				switch fn {
				case 0:
					c14Unordered(x, "$keys(o)", doc, collapse(keys), false)
				case 1:
					var out []interface{}
					for _, k := range keys {
						out = append(out, cbApply(k.(string)))
					}
					c14Unordered(x, "$each(o, "+cb+")", doc, collapse(out), false)
				case 2:
					sift := map[string]interface{}{}
					for _, k := range keys {
						var r interface{}
						switch arity {
						case 1:
							r = o[k.(string)]
						case 2:
							r = k.(string) != "b"
						default:
							r = len(keys) > 1
						}
						if ref.Truthy(r) {
							sift[k.(string)] = o[k.(string)]
						}
					}
					pred := []string{`function($v){$v}`, `function($v,$k){$k != "b"}`, `function($v,$k,$o){$count($keys($o)) > 1}`}[arity-1]
					var want interface{} = sift
					if len(sift) == 0 {
						want = ref.U
					}
					c14Unordered(x, "$sift(o, "+pred+")", doc, want, false)
				case 3:
					out := []interface{}{}
					for _, k := range keys {
						out = append(out, map[string]interface{}{k.(string): o[k.(string)]})
					}
					c14Unordered(x, "$spread(o)", doc, out, false)
				case 4:
					c14Unordered(x, "$merge($spread(o)) = o", doc, true, false)
				case 5:
					c14Unordered(x, "$count($keys(o)) = $count($spread(o))", doc, true, false)
				case 6:
					c14Unordered(x, "$each(o, function($v,$k){$k})", doc, collapse(keys), false)
				case 7, 8, 9:
					k := []string{"a", "b", "c"}[fn-7]
					if v, ok := o[k]; ok {
						c14Unordered(x, `$lookup(o, "`+k+`") = o.`+k, doc, true, false)
						c14Unordered(x, `$lookup(o, "`+k+`")`, doc, v, false)
					} else {
						c14Unordered(x, `$lookup(o, "`+k+`")`, doc, ref.U, false)
					}
				case 10:
					c14Unordered(x, `$lookup(o, "missing")`, doc, ref.U, false)
				default:
					c14Unordered(x, "$merge(o)", doc, o, false)
				}
			}},
			{Name: "object-functions-on-arrays", Quick: []int{1}, ShardDepth: 3, Run: func(c *explore.Chooser, x *explore.Ctx, _ int) {
				o1, o2 := c14Object(c), c14Object(c)
				fn := c.Choose(6)
				key := "a"
				if fn == 4 {
					key = []string{"a", "b", "c"}[c.Choose(3)]
				}
				c.Done()
				doc := map[string]interface{}{"a": []interface{}{o1, o2}}
				switch fn {
				case 5: // the same object at two positions of the array: its later position still takes precedence
					m := map[string]interface{}{}
					for _, o := range []map[string]interface{}{o1, o2, o1} {
						for k, v := range o {
							m[k] = v
						}
					}
					d2 := map[string]interface{}{"p": o1, "q": o2}
					if len(o1) == 0 || len(o2) == 0 {
						return // an empty object selected by a path is still an object, but [p, q, p] then has fewer items: covered by case 0
					}
					c14Unordered(x, "$merge([p, q, p])", d2, m, false)
					c14Unordered(x, "($o := p; $merge([$o, q, $o]))", d2, m, false)
				case 4: // $lookup over an array of objects equals the field selection, whenever some object has the member
					sel := rpath(rname("a"), rname(key))
					want, werr := ref.Eval(sel, doc, ref.NewEnv(doc))
					if werr != nil || ref.IsUndef(want) {
						c14Unordered(x, `$lookup(a, "`+key+`")`, doc, ref.U, false)
						return
					}
					c14Unordered(x, `$lookup(a, "`+key+`")`, doc, want, false)
					c14Unordered(x, `$lookup(a, "`+key+`") = a.`+key, doc, true, false)
				case 0: // later objects take precedence
					m := map[string]interface{}{}
					for k, v := range o1 {
						m[k] = v
					}
					for k, v := range o2 {
						m[k] = v
					}
					c14Unordered(x, "$merge(a)", doc, m, false)
				case 1: // each distinct name exactly once
					seen := map[string]bool{}
					var keys []interface{}
					for _, o := range []map[string]interface{}{o1, o2} {
						for _, k := range []string{"a", "b", "c"} {
							if _, ok := o[k]; ok && !seen[k] {
								seen[k] = true
								keys = append(keys, k)
							}
						}
					}
					c14Unordered(x, "$keys(a)", doc, collapse(keys), false)
				case 2:
					out := []interface{}{}
					for _, o := range []map[string]interface{}{o1, o2} {
						for _, k := range []string{"a", "b", "c"} {
							if v, ok := o[k]; ok {
								out = append(out, map[string]interface{}{k: v})
							}
						}
					}
					c14Unordered(x, "$spread(a)", doc, out, false)
				default:
					c14Unordered(x, "$merge($spread(a)) = $merge(a)", doc, true, false)
				}
			}},
		},
	})
}

// c14Group evaluates one constructor in one of three forms against the reference model.
func c14Group(x *explore.Ctx, items []interface{}, pairs [][2]ref.Node, form int) {
	var n ref.Node
	var input interface{}
	switch form {
	case 0: // a{k: v}: grouping over the items
		n = &ref.Group{X: rpath(rname("a")), Pairs: pairs}
		input = map[string]interface{}{"a": items}
	case 1: // a.{k: v}: one object per item
		n = &ref.Path{Steps: []ref.Node{rname("a"), &ref.Obj{Pairs: pairs}}, KeepAt: -1}
		input = map[string]interface{}{"a": items}
	default: // {k: v} with the array as context
		n = &ref.Obj{Pairs: pairs}
		input = items
	}
	prog := ref.Text(n)
	want, werr := ref.Eval(n, input, ref.NewEnv(input))
	var got impl.Outcome
	in := jsonText(input)
	x.Eval()
	x.Describe(func() string { return prog + " on " + in })
	if x.Guard(prog, in, func() { got = impl.Run(prog, input) }) {
		return
	}
	ok, checked := agrees(got, want, werr)
	if checked {
		x.Validated()
	}
	if !ok {
		x.Violation("value", "value:"+prog+"|"+in, explore.Detail{Program: prog, Input: in, Expected: predicted(want, werr), Observed: got.String()})
	}
	x.Outcome(got.Short())
	if got.Kind == impl.Value {
		x.Nontrivial()
	}
	x.Sample(func() string { return prog + " on " + in })
	_ = fmt.Sprint
	_ = strings.Join
}

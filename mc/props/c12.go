package props

import (
	"strings"

	"verif/mc/explore"
	"verif/mc/impl"
	"verif/mc/ref"
)

// ---- reference definitions of the context-defaulting string built-ins ---------

func init() {
	str1 := func(name string, f func(string) interface{}) {
		ref.RegisterBuiltin(name, &ref.Func{Name: name, Arity: 1, CallCtx: func(args []interface{}, ctx interface{}) (interface{}, error) {
			if len(args) == 0 {
				args = []interface{}{ctx}
			}
			if len(args) != 1 {
				return nil, ref.E("argcount")
			}
			if ref.IsUndef(args[0]) {
				return ref.U, nil
			}
			s, ok := args[0].(string)
			if !ok {
				return nil, ref.E("argtype:1")
			}
			return f(s), nil
		}})
	}
	str1("uppercase", func(s string) interface{} { return refCase(s, true) })
	str1("lowercase", func(s string) interface{} { return refCase(s, false) })
	str1("trim", func(s string) interface{} { return refTrim(s) })
	str1("length", func(s string) interface{} { return float64(len(runes(s))) })
	two := func(name string, f func(s, c string) string) {
		ref.RegisterBuiltin(name, &ref.Func{Name: name, Arity: 2, CallCtx: func(args []interface{}, ctx interface{}) (interface{}, error) {
			if len(args) == 1 {
				if _, isStr := args[0].(string); isStr {
					args = []interface{}{ctx, args[0]}
				}
			}
			if len(args) > 0 && ref.IsUndef(args[0]) {
				return ref.U, nil
			}
			if len(args) != 2 {
				return nil, ref.E("argcount")
			}
			s, ok := args[0].(string)
			if !ok {
				return nil, ref.E("argtype:1")
			}
			c, ok := args[1].(string)
			if !ok {
				return nil, ref.E("argtype:2")
			}
			return f(s, c), nil
		}})
	}
	two("substringBefore", refBefore)
	two("substringAfter", refAfter)
	ref.RegisterBuiltin("pad", &ref.Func{Name: "pad", Arity: 3, CallCtx: func(args []interface{}, ctx interface{}) (interface{}, error) {
		isNum := func(v interface{}) bool { _, ok := v.(float64); return ok }
		isStr := func(v interface{}) bool { _, ok := v.(string); return ok }
		if (len(args) == 1 && isNum(args[0])) || (len(args) == 2 && isNum(args[0]) && isStr(args[1])) {
			args = append([]interface{}{ctx}, args...)
		}
		if len(args) > 0 && ref.IsUndef(args[0]) {
			return ref.U, nil
		}
		if len(args) < 2 || len(args) > 3 {
			return nil, ref.E("argcount")
		}
		s, ok := args[0].(string)
		if !ok {
			return nil, ref.E("argtype:1")
		}
		w, ok := args[1].(float64)
		if !ok {
			return nil, ref.E("argtype:2")
		}
		pad := ""
		if len(args) == 3 && !ref.IsUndef(args[2]) {
			p, ok := args[2].(string)
			if !ok {
				return nil, ref.E("argtype:3")
			}
			pad = p
		}
		return refPad(s, int(w), pad), nil
	}})
}

// ---- scopes ---------------------------------------------------------------------

func rassign(name string, v ref.Node) ref.Node { return &ref.Assign{Name: name, Val: v} }
func rarr(items ...ref.Node) ref.Node          { return &ref.Arr{Items: items} }
func rlambda(body ref.Node, params ...string) ref.Node {
	return &ref.Lambda{Params: params, Body: body}
}

// statements of the scope grammar (no inner blocks)
func c12Stmt(k int) ref.Node {
	switch k {
	case 0:
		return rassign("x", rnum(1))
	case 1:
		return rassign("x", rnum(2))
	case 2:
		return rassign("y", rvar("x"))
	case 3:
		return rassign("y", rnum(3))
	case 4:
		return rassign("f", rlambda(rarr(rvar("x"), rvar("y")), "x")) // parameter shadows x, y is free
	case 5:
		return rassign("f", rlambda(rarr(rvar("x"), rvar("y"), rp("a")))) // free variables and the context of the definition site
	case 6:
		return rassign("f", rlambda(rarr(rvar("p"), rvar("q"), rcall("exists", rvar("q"))), "p", "q"))
	case 7:
		return rvar("x")
	case 8:
		return rarr(rvar("x"), rvar("y"))
	case 9:
		return rcall("f", rnum(7))
	case 10:
		return &ref.Call{Fn: rvar("f")}
	case 11:
		return rcall("f", rnum(7), rnum(8), rnum(9))
	case 12:
		return rpath(rname("b"), rcall("f", rnum(6))) // called under another context item
	case 13:
		return rassign("x", rcall("f", rnum(5)))
	case 14:
		return rassign("f", rlambda(rassign("x", rnum(2)))) // no parameters, the body is a bare assignment: it binds in the call's own frame
	default:
		return rassign("f", rlambda(rassign("y", rvar("p")), "p")) // the same with a parameter
	}
}

const c12NumStmts = 16

var c12Closures = []func() ref.Node{
	// a function returned from a block keeps the block's bindings
	func() ref.Node {
		return &ref.Paren{Exprs: []ref.Node{rassign("g", &ref.Paren{Exprs: []ref.Node{rassign("k", rnum(10)), rlambda(&ref.Bin{Op: "+", L: rvar("n"), R: rvar("k")}, "n")}}), rcall("g", rnum(1))}}
	},
	// curried: a function returning a function
	func() ref.Node {
		add := rlambda(rlambda(&ref.Bin{Op: "+", L: rvar("n"), R: rvar("m")}, "m"), "n")
		return &ref.Paren{Exprs: []ref.Node{rassign("add", add), &ref.Call{Fn: rcall("add", rnum(1)), Args: []ref.Node{rnum(2)}}}}
	},
	// shadowing by a parameter never alters the outer binding
	func() ref.Node {
		return &ref.Paren{Exprs: []ref.Node{rassign("x", rnum(1)), rassign("f", rlambda(&ref.Paren{Exprs: []ref.Node{rassign("x", rnum(9)), rvar("x")}}, "x")), rarr(rcall("f", rnum(5)), rvar("x"))}}
	},
	// a binding made in an inner block is invisible outside
	func() ref.Node {
		return &ref.Paren{Exprs: []ref.Node{&ref.Paren{Exprs: []ref.Node{rassign("z", rnum(4)), rvar("z")}}, rarr(rcall("exists", rvar("z")))}}
	},
	// recursion through the bound name (factorial 4)
	func() ref.Node {
		body := &ref.Cond{C: &ref.Bin{Op: "<=", L: rvar("n"), R: rnum(1)}, T: rnum(1), E: &ref.Bin{Op: "*", L: rvar("n"), R: rcall("fact", &ref.Bin{Op: "-", L: rvar("n"), R: rnum(1)})}}
		return &ref.Paren{Exprs: []ref.Node{rassign("fact", rlambda(body, "n")), rcall("fact", rnum(4))}}
	},
	// the closure sees a later rebinding made in its defining block
	func() ref.Node {
		return &ref.Paren{Exprs: []ref.Node{rassign("k", rnum(1)), rassign("f", rlambda(rvar("k"))), rassign("k", rnum(2)), &ref.Call{Fn: rvar("f")}}}
	},
	// context item of the definition site, called under another context
	func() ref.Node {
		return &ref.Paren{Exprs: []ref.Node{rassign("f", rlambda(rp("a"))), rpath(rname("b"), &ref.Call{Fn: rvar("f")})}}
	},
	// passed to a higher-order built-in
	func() ref.Node {
		return &ref.Paren{Exprs: []ref.Node{rassign("k", rnum(10)), rcall("map", rarr(rnum(1), rnum(2)), rlambda(&ref.Bin{Op: "+", L: rvar("v"), R: rvar("k")}, "v"))}}
	},
}

var c12Doc = map[string]interface{}{"a": 4.0, "b": map[string]interface{}{"a": 5.0}, "s": "ctx", "n": 7.0}

func c12Compare(x *explore.Ctx, n ref.Node, input interface{}) {
	c01Compare(x, n, input, false)
}

// ---- signatures ---------------------------------------------------------------

var c12Types = []string{"n", "s", "b", "a", "o", "f", "j", "x", "l", "(ns)", "(sb)", "(sa)", "(ao)", "(ln)", "a<n>", "a<s>", "a<l>"}

type c12Arg struct {
	src string
	val func() ref.Node
}

var c12Args = []c12Arg{
	{"1", func() ref.Node { return rnum(1) }},
	{`"s"`, func() ref.Node { return rstr("s") }},
	{"true", func() ref.Node { return &ref.Lit{Val: true, Src: "true"} }},
	{"[1,2]", func() ref.Node { return rarr(rnum(1), rnum(2)) }},
	{`["a"]`, func() ref.Node { return rarr(rstr("a")) }},
	{`[1,"a"]`, func() ref.Node { return rarr(rnum(1), rstr("a")) }},
	{`{"k":1}`, func() ref.Node { return robj("k", rnum(1)) }},
	{"$sum", func() ref.Node { return rvar("sum") }},
	{"nothing", func() ref.Node { return rp("nothing") }},
	{"null", func() ref.Node { return &ref.Lit{Val: nil, Src: "null"} }},
	{"[null]", func() ref.Node { return rarr(&ref.Lit{Val: nil, Src: "null"}) }},
}

func init() {
	ref.RegisterBuiltin("exists", &ref.Func{Name: "exists", Arity: 1, Call: func(args []interface{}) (interface{}, error) {
		if len(args) != 1 {
			return nil, ref.E("argcount")
		}
		return !ref.IsUndef(args[0]), nil
	}})
	explore.Register(&explore.Prop{
		ID:        "C12",
		Title:     "Lexical scoping, closures, signatures, partial application and chaining",
		Technique: "exhaustive enumeration of blocks of statements over a scope grammar, of all signatures up to a length x all argument lists up to a length over 9 kinds, of partial applications with placeholders in every position, of chains up to length 4 over 7 link kinds, and of all ordered pairs of context-defaulting built-ins nested under different contexts, against a reference interpreter with real lexical environments",
		Rule: "a case is one generated program on a fixed document; oracle: the reference interpreter (frame chain, closures capturing frame and context item, signature fitting with ? + - options, unions and array subtypes, " +
			"placeholder substitution in order, chain laws) predicts value / no value / error class; non-trivial when a value is returned",
		Assumptions: []string{
			"'-' is generated on the first parameter only, '?' only on trailing parameters, '+' only on the last",
			"blocks nested deeper than 2, signatures with more than 3 parameters and nested subtypes are outside the bound",
		},
		Phases: []explore.Phase{
			{Name: "scopes", Quick: []int{1, 2, 3}, ShardDepth: 2, Run: func(c *explore.Chooser, x *explore.Ctx, n int) {
				stmts := make([]ref.Node, n)
				innerAt := -1
				if n >= 2 {
					innerAt = c.Choose(n+1) - 1 // -1: no inner block
				}
				for i := range stmts {
					if i == innerAt {
						m := 1 + c.Choose(2)
						inner := make([]ref.Node, m)
						for j := range inner {
							inner[j] = c12Stmt(c.Choose(c12NumStmts))
						}
						stmts[i] = &ref.Paren{Exprs: inner}
						continue
					}
					stmts[i] = c12Stmt(c.Choose(c12NumStmts))
				}
				c.Done()
				c12Compare(x, &ref.Paren{Exprs: stmts}, c12Doc)
			}},
			{Name: "closures", Quick: []int{1}, ShardDepth: -1, Run: func(c *explore.Chooser, x *explore.Ctx, _ int) {
				k := c.Choose(len(c12Closures))
				c.Done()
				c12Compare(x, c12Closures[k](), c12Doc)
			}},
			{Name: "signatures", Quick: []int{1, 2}, Thorough: []int{1, 2, 3}, ShardDepth: 3, Run: func(c *explore.Chooser, x *explore.Ctx, np int) {
				sig := ""
				params := []string{"p", "q", "r"}[:np]
				for i := 0; i < np; i++ {
					t := c12Types[c.Choose(len(c12Types))]
					opt := ""
					switch {
					case i == 0 && np > 1:
						opt = []string{"", "-"}[c.Choose(2)]
					case i == 0:
						opt = []string{"", "-", "?", "+"}[c.Choose(4)]
					case i == np-1:
						opt = []string{"", "?", "+"}[c.Choose(3)]
					default:
						opt = []string{"", "?"}[c.Choose(2)]
					}
					sig += t + opt
				}
				// '?' only on trailing parameters
				if np == 3 && strings.Contains(sig[:len(sig)-1], "?") && !strings.HasSuffix(sig, "?") {
					c.Done()
					return
				}
				maxArgs := 4
				if np >= 2 && !x.Thorough() {
					maxArgs = 3 // quick tier: two-parameter signatures against argument lists of length 0..3
				}
				nArgs := c.Choose(maxArgs + 1)
				args := make([]ref.Node, nArgs)
				for i := range args {
					args[i] = c12Args[c.Choose(len(c12Args))].val()
				}
				c.Done()
				if np == 3 && nArgs > 3 {
					return
				}
				pairs := [][2]ref.Node{}
				for _, p := range params {
					pairs = append(pairs, [2]ref.Node{rstr(p), rvar(p)})
				}
				lam := &ref.Lambda{Params: params, Body: &ref.Obj{Pairs: pairs}, Sig: sig}
				// defined and called under the context item s = "ctx"
				prog := rpath(rname("s"), &ref.Call{Fn: &ref.Paren{Exprs: []ref.Node{lam}}, Args: args})
				c12Compare(x, prog, c12Doc)
			}},
			{Name: "partials", Quick: []int{2, 3}, ShardDepth: 2, Run: func(c *explore.Chooser, x *explore.Ctx, arity int) {
				// f(?, x)-style partials with placeholders in every subset of positions, applied to 0..3 arguments
				kind := c.Choose(3)
				slots := make([]ref.Node, arity)
				holes := 0
				for i := range slots {
					if c.Bool() {
						holes++
						continue
					}
					slots[i] = rstr(string(rune('A' + i)))
				}
				nCall := c.Choose(4)
				call := make([]ref.Node, nCall)
				for i := range call {
					call[i] = rnum(float64(i + 1))
				}
				c.Done()
				if holes == 0 {
					return // not a partial application
				}
				params := []string{"a", "b", "c"}[:arity]
				var fn ref.Node
				items := make([]ref.Node, arity)
				for i, p := range params {
					items[i] = &ref.Bin{Op: "&", L: rstr(p + "="), R: rvar(p)}
				}
				body := rarr(items...)
				switch kind {
				case 0:
					fn = &ref.Paren{Exprs: []ref.Node{&ref.Lambda{Params: params, Body: body}}}
				case 1:
					fn = &ref.Paren{Exprs: []ref.Node{&ref.Lambda{Params: params, Body: body, Sig: strings.Repeat("x", arity)}}}
				default:
					if arity != 2 {
						return
					}
					fn = rvar("append")
				}
				c12Compare(x, &ref.Call{Fn: &ref.Partial{Fn: fn, Args: slots}, Args: call}, c12Doc)
			}},
			{Name: "chains", Quick: []int{1, 2, 3}, Thorough: []int{1, 2, 3, 4}, ShardDepth: 2, Run: func(c *explore.Chooser, x *explore.Ctx, n int) {
				links := []func() ref.Node{
					func() ref.Node { return rcall("append", rnum(9)) },                                         // call g(a): the left side becomes the first argument
					func() ref.Node { return rvar("count") },                                                    // bare function
					func() ref.Node { return &ref.Partial{Fn: rvar("append"), Args: []ref.Node{nil, rnum(8)}} }, // partial
					func() ref.Node { return rlambda(rarr(rvar("v"), rvar("v")), "v") },                         // lambda
					func() ref.Node { return &ref.Transform{Pattern: rvar(""), Update: robj("z", rnum(1))} },    // transform
					func() ref.Node { return rnum(5) },                                                          // not a function
					func() ref.Node { return rvar("string") },
					func() ref.Node { return rlambda(rpath(rvar("v"), rname("nothing")), "v") }, // a stage that yields no value
					func() ref.Node { return rvar("exists") },                                   // a stage that maps no value to a value
				}
				starts := []func() ref.Node{func() ref.Node { return rp("n") }, func() ref.Node { return rp("b") }, func() ref.Node { return rarr(rnum(1), rnum(2)) },
					func() ref.Node { return rvar("sum") }, func() ref.Node { return rp("nothing") }}
				var node ref.Node = starts[c.Choose(len(starts))]()
				for i := 0; i < n; i++ {
					node = &ref.Apply{L: node, R: links[c.Choose(len(links))]()}
				}
				applied := c.Bool() // a chain of functions applied to a value
				c.Done()
				if applied {
					node = &ref.Call{Fn: &ref.Paren{Exprs: []ref.Node{node}}, Args: []ref.Node{rarr(rnum(3), rnum(4))}}
				}
				c12Compare(x, node, c12Doc)
			}},
			{Name: "chain-extension-histories", Quick: []int{1, 2, 3, 4, 5}, ShardDepth: 3, Run: func(c *explore.Chooser, x *explore.Ctx, n int) {
				// composed functions are values: every history of n statements $c_i := $c_j ~> $f_k (j < i) extending
				// earlier chains, then every chain is applied - extending a chain never changes another chain
				ops := []ref.Node{&ref.Bin{Op: "+", L: rvar("v"), R: rnum(1)}, &ref.Bin{Op: "*", L: rvar("v"), R: rnum(2)},
					&ref.Bin{Op: "-", L: rvar("v"), R: rnum(3)}, &ref.Bin{Op: "*", L: rvar("v"), R: rnum(100)}}
				stmts := []ref.Node{}
				for k, op := range ops {
					stmts = append(stmts, rassign("f"+itoa(k), rlambda(op, "v")))
				}
				stmts = append(stmts, rassign("c0", rvar("f0")))
				calls := []ref.Node{rcall("c0", rnum(1))}
				for i := 1; i <= n; i++ {
					j := c.Choose(i)
					k := c.Choose(len(ops))
					stmts = append(stmts, rassign("c"+itoa(i), &ref.Apply{L: rvar("c" + itoa(j)), R: rvar("f" + itoa(k))}))
					calls = append(calls, rcall("c"+itoa(i), rnum(1)))
				}
				c.Done()
				stmts = append(stmts, rarr(calls...))
				c12Compare(x, &ref.Paren{Exprs: stmts}, c12Doc)
			}},
			{Name: "rebinding-histories", Quick: []int{2, 3, 4, 5}, Thorough: []int{2, 3, 4, 5, 6}, ShardDepth: 3, Run: func(c *explore.Chooser, x *explore.Ctx, n int) {
				// closures made directly, through an inner block and by a function that returns a function; calls and
				// rebindings of the free variable in every order: a call always sees the current binding of the
				// defining scope, and the inner bindings ($a) stay what they were when the closure was made
				mk := rassign("mk", rlambda(rlambda(rarr(rvar("x"), rvar("a"))), "a"))
				stmt := func(k int) ref.Node {
					switch k {
					case 0:
						return rassign("x", rnum(1))
					case 1:
						return rassign("x", rnum(2))
					case 2:
						return rassign("g", rlambda(rarr(rvar("x"))))
					case 3:
						return rassign("g", &ref.Paren{Exprs: []ref.Node{rassign("a", rnum(10)), rlambda(rarr(rvar("x"), rvar("a")))}})
					case 4:
						return rassign("g", rcall("mk", rnum(20)))
					case 8:
						return rassign("g", &ref.Partial{Fn: rvar("append"), Args: []ref.Node{nil, rarr(rvar("x"))}}) // the bound argument is fixed now
					case 5:
						return rassign("r1", &ref.Call{Fn: rvar("g")})
					case 6:
						return rassign("r2", &ref.Call{Fn: rvar("g")})
					default:
						return &ref.Paren{Exprs: []ref.Node{rassign("x", rnum(7)), &ref.Call{Fn: rvar("g")}}} // rebinding in an inner block does not leak
					}
				}
				stmts := []ref.Node{mk}
				for i := 0; i < n; i++ {
					stmts = append(stmts, stmt(c.Choose(9)))
				}
				c.Done()
				stmts = append(stmts, rarr(rarr(rvar("r1")), rarr(rvar("r2")), rarr(&ref.Call{Fn: rvar("g")}), rvar("x")))
				c12Compare(x, &ref.Paren{Exprs: stmts}, c12Doc)
			}},
			{Name: "chain-laws", Quick: []int{1}, ShardDepth: 2, Run: func(c *explore.Chooser, x *explore.Ctx, _ int) {
				// v ~> f(a) equals f(v, a); (f ~> g)(v) equals g(f(v)) - compared with each other inside the language
				vals := []string{"n", "s", "[1,2]", "b", "nothing", `"q"`}
				v := vals[c.Choose(len(vals))]
				law := c.Choose(4)
				c.Done()
				progs := []string{
					"(" + v + " ~> $append(9)) = $append(" + v + ", 9)",
					"(" + v + " ~> $string ~> $length) = $length($string(" + v + "))",
					"($string ~> $length)(" + v + ") = $length($string(" + v + "))",
					"(" + v + " ~> $pad(?, 9)) = $pad(?, 9)(" + v + ")",
				}
				prog := progs[law]
				got := c16Expect(x, prog, c12Doc, nil, false, false)
				x.Validated()
				if !(got.Kind == impl.Value && got.Val == true) && got.Kind != impl.Error {
					// both sides missing compare as false: accept only when both sides really are missing
					if v != "nothing" {
						x.Violation("value", "law:"+prog, explore.Detail{Program: prog, Input: jsonText(c12Doc), Expected: "true (both sides denote the same value)", Observed: got.String()})
					}
				}
				x.Outcome(got.Short())
			}},
			{Name: "nested-context-builtins", Quick: []int{1}, ShardDepth: 2, Run: func(c *explore.Chooser, x *explore.Ctx, _ int) {
				// every ordered pair (outer, inner) of context-defaulting built-ins, nested in one another's
				// arguments under different path contexts whose strings differ
				type fn struct {
					name string
					ctx  func(arg ref.Node) ref.Node // the context-defaulting call; arg may be nil
					full bool
				}
				fns := []fn{
					{"uppercase", func(ref.Node) ref.Node { return &ref.Call{Fn: rvar("uppercase")} }, false},
					{"lowercase", func(ref.Node) ref.Node { return &ref.Call{Fn: rvar("lowercase")} }, false},
					{"trim", func(ref.Node) ref.Node { return &ref.Call{Fn: rvar("trim")} }, false},
					{"string", func(ref.Node) ref.Node { return &ref.Call{Fn: rvar("string")} }, false},
					{"substringBefore", func(a ref.Node) ref.Node { return rcall("substringBefore", a) }, true},
					{"substringAfter", func(a ref.Node) ref.Node { return rcall("substringAfter", a) }, true},
					{"pad", func(a ref.Node) ref.Node { return rcall("pad", rnum(8), a) }, true},
				}
				outer := fns[c.Choose(len(fns))]
				inner := fns[c.Choose(len(fns))]
				shape := c.Choose(3)
				c.Done()
				doc := map[string]interface{}{"p1": "Alpha-Beta Z", "p2": map[string]interface{}{"q": "-Be"}, "p3": "ta", "k": "-"}
				innerArg := rstr("e")
				var innerCall ref.Node
				switch shape {
				case 0: // $$.p2.q.$inner(k)
					innerCall = &ref.Path{Steps: []ref.Node{rvar("$"), rname("p2"), rname("q"), inner.ctx(innerArg)}, KeepAt: -1}
				case 1: // $$.p3.$inner(k)
					innerCall = &ref.Path{Steps: []ref.Node{rvar("$"), rname("p3"), inner.ctx(innerArg)}, KeepAt: -1}
				default: // $inner() on the same context item
					innerCall = inner.ctx(innerArg)
				}
				var prog ref.Node
				if outer.full {
					prog = rpath(rname("p1"), outer.ctx(innerCall))
				} else {
					// the outer call defaults its own argument to the context; the inner call is evaluated first in an array
					prog = rpath(rname("p1"), rarr(innerCall, outer.ctx(nil)))
				}
				c12Compare(x, prog, doc)
			}},
		},
	})
}

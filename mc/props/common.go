// Package props holds one file per property: alphabet, bounds and oracle.
package props

import (
	"encoding/json"
	"fmt"

	"verif/mc/explore"
	"verif/mc/impl"
	"verif/mc/ref"
)

// jsonText renders an input document.
func jsonText(v interface{}) string {
	b, err := json.Marshal(v)
	if err != nil {
		return fmt.Sprintf("%#v", v)
	}
	return string(b)
}

// predicted describes a reference prediction for printing.
func predicted(want interface{}, wantErr error) string {
	if wantErr != nil {
		return wantErr.Error()
	}
	if ref.IsUndef(want) {
		return "no value"
	}
	return "value " + impl.Render(ref.Norm(want))
}

// agrees compares an implementation outcome with a reference prediction.
// checked=false when the prediction is 'unspecified' (totality only).
func agrees(got impl.Outcome, want interface{}, wantErr error) (ok, checked bool) {
	switch e := wantErr.(type) {
	case *ref.Unspecified:
		return true, false
	case *ref.Err:
		if got.Kind != impl.Error {
			return false, true
		}
		if len(e.Classes) == 0 {
			return true, true
		}
		for _, c := range e.Classes {
			if c == got.Class {
				return true, true
			}
			// "argtype" matches argtype:<n>
			if c == "argtype" && len(got.Class) >= 7 && got.Class[:7] == "argtype" {
				return true, true
			}
		}
		return false, true
	case nil:
	default:
		panic("props: unexpected reference error type")
	}
	if ref.IsUndef(want) {
		return got.Kind == impl.Undefined, true
	}
	if got.Kind != impl.Value {
		return false, true
	}
	return impl.Equal(ref.Norm(want), got.Val), true
}

// checkRef runs program on input and compares with the reference prediction.
func checkRef(x *explore.Ctx, program string, input interface{}, want interface{}, wantErr error) impl.Outcome {
	got := impl.Run(program, input)
	x.Eval()
	ok, checked := agrees(got, want, wantErr)
	if checked {
		x.Validated()
	}
	if !ok {
		in := jsonText(input)
		x.Violation("value", "value:"+program+"|"+in, explore.Detail{Program: program, Input: in,
			Expected: predicted(want, wantErr), Observed: got.String()})
	}
	return got
}

func itoa(n int) string { return fmt.Sprint(n) }

package props

import (
	"fmt"
	"math/big"
	"strings"

	"verif/mc/explore"
	"verif/mc/impl"
)

// fmtSyms is a decimal format: the symbols of pictures and of results.
type fmtSyms struct {
	dec, grp, exp, minus, zero, opt, pat rune
	pct, pml                             string
	opts                                 map[string]string // options object to pass (deviations from the default only)
}

func defaultSyms() fmtSyms {
	return fmtSyms{dec: '.', grp: ',', exp: 'e', minus: '-', zero: '0', opt: '#', pat: ';', pct: "%", pml: "‰", opts: map[string]string{}}
}

// option deviations: name, alternative symbol
var c18OptionDeviations = []struct{ name, val string }{
	{"decimal-separator", "!"}, {"grouping-separator", "_"}, {"exponent-separator", "E"}, {"minus-sign", "~"}, {"zero-digit", "٠"},
	{"digit", "@"}, {"pattern-separator", "|"}, {"percent", "pc"}, {"per-mille", "pm"},
}

func (s *fmtSyms) apply(name, val string) {
	r := []rune(val)[0]
	switch name {
	case "decimal-separator":
		s.dec = r
	case "grouping-separator":
		s.grp = r
	case "exponent-separator":
		s.exp = r
	case "minus-sign":
		s.minus = r
	case "zero-digit":
		s.zero = r
	case "digit":
		s.opt = r
	case "pattern-separator":
		s.pat = r
	case "percent":
		s.pct = val
	case "per-mille":
		s.pml = val
	}
	s.opts[name] = val
}

// picture is a generated sub-picture in default symbols plus its analysis.
type c18Picture struct {
	intPart, fracPart string // over 0 # ,
	mode              string // "", "%", "‰", "e0", "e00"
	prefix, suffix    string
	second            string // "", "paren", "minus"
}

func (p *c18Picture) sub(s *fmtSyms, pre, suf string) string {
	tr := func(t string) string {
		var sb strings.Builder
		for _, r := range t {
			switch r {
			case '0':
				sb.WriteRune(s.zero)
			case '#':
				sb.WriteRune(s.opt)
			case ',':
				sb.WriteRune(s.grp)
			}
		}
		return sb.String()
	}
	out := pre + p.prefix + tr(p.intPart)
	if p.fracPart != "" {
		out += string(s.dec) + tr(p.fracPart)
	}
	switch p.mode {
	case "%":
		out += s.pct
	case "‰":
		out += s.pml
	case "e0":
		out += string(s.exp) + string(s.zero)
	case "e00":
		out += string(s.exp) + string(s.zero) + string(s.zero)
	}
	return out + p.suffix + suf
}

func (p *c18Picture) text(s *fmtSyms) string {
	t := p.sub(s, "", "")
	switch p.second {
	case "paren":
		t += string(s.pat) + p.sub(s, "(", ")")
	case "minus":
		t += string(s.pat) + p.sub(s, string(s.minus), "")
	}
	return t
}

func countRune(s string, r rune) int { return strings.Count(s, string(r)) }

// groupPositions: number of digit symbols to the right of each separator (integer
// part) or to the left of it (fraction part).
func groupPositions(part string, fromRight bool) []int {
	var pos []int
	rs := []rune(part)
	if fromRight {
		n := 0
		for i := len(rs) - 1; i >= 0; i-- {
			if rs[i] == ',' {
				pos = append(pos, n)
			} else {
				n++
			}
		}
	} else {
		n := 0
		for _, r := range rs {
			if r == ',' {
				pos = append(pos, n)
			} else {
				n++
			}
		}
	}
	return pos
}

func regularGroup(pos []int) int {
	if len(pos) == 0 {
		return 0
	}
	n := pos[0]
	for i, p := range pos {
		if p != n*(i+1) {
			return 0
		}
	}
	return n
}

// c18CheckFormatted verifies the read-back clauses of the statement for one
// result. It returns "" when the result is acceptable.
func c18CheckFormatted(out string, x float64, p *c18Picture, s *fmtSyms) string {
	neg := x < 0
	pre, suf := p.prefix, p.suffix
	if neg {
		switch p.second {
		case "paren":
			pre, suf = "("+pre, suf+")"
		default: // minus sign (explicit second sub-picture or none)
			pre = string(s.minus) + pre
		}
	}
	switch p.mode {
	case "%":
		suf = s.pct + suf
	case "‰":
		suf = s.pml + suf
	}
	if !strings.HasPrefix(out, pre) || !strings.HasSuffix(out, suf) || len(out) < len(pre)+len(suf) {
		return fmt.Sprintf("prefix %q and suffix %q of the (sub-)picture", pre, suf)
	}
	body := out[len(pre) : len(out)-len(suf)]
	// exponent
	expVal := 0
	isExp := p.mode == "e0" || p.mode == "e00"
	if isExp {
		i := strings.IndexRune(body, s.exp)
		if i < 0 {
			return "an exponent part"
		}
		e := body[i+len(string(s.exp)):]
		body = body[:i]
		sign := 1
		if strings.HasPrefix(e, string(s.minus)) {
			sign = -1
			e = e[len(string(s.minus)):]
		}
		digits := []rune(e)
		min := 1
		if p.mode == "e00" {
			min = 2
		}
		if len(digits) < min {
			return fmt.Sprintf("at least %d exponent digits", min)
		}
		for _, d := range digits {
			if d < s.zero || d > s.zero+9 {
				return "exponent digits"
			}
			expVal = expVal*10 + int(d-s.zero)
		}
		expVal *= sign
	} else if strings.ContainsRune(body, s.exp) && s.exp != 'e' {
		return "no exponent part"
	}
	intStr, fracStr := body, ""
	if i := strings.IndexRune(body, s.dec); i >= 0 {
		intStr, fracStr = body[:i], body[i+len(string(s.dec)):]
	}
	// grouping separators of the integer part
	var intDigits []rune
	var sepAt []int // positions from the right, collected after the scan
	ir := []rune(intStr)
	for i := len(ir) - 1; i >= 0; i-- {
		if ir[i] == s.grp {
			sepAt = append(sepAt, len(intDigits))
			continue
		}
		if ir[i] < s.zero || ir[i] > s.zero+9 {
			return "only digits and grouping separators in the integer part"
		}
		intDigits = append([]rune{ir[i]}, intDigits...)
	}
	pos := groupPositions(p.intPart, true)
	var wantSep []int
	if n := regularGroup(pos); n > 0 {
		for k := n; k < len(intDigits); k += n {
			wantSep = append(wantSep, k)
		}
	} else {
		for _, q := range pos {
			if q < len(intDigits) {
				wantSep = append(wantSep, q)
			}
		}
	}
	if fmt.Sprint(sepAt) != fmt.Sprint(wantSep) {
		return fmt.Sprintf("grouping separators at positions %v from the right (found at %v)", wantSep, sepAt)
	}
	// fraction part
	var fracDigits []rune
	var fsepAt []int
	for _, r := range fracStr {
		if r == s.grp {
			fsepAt = append(fsepAt, len(fracDigits))
			continue
		}
		if r < s.zero || r > s.zero+9 {
			return "only digits and grouping separators in the fraction part"
		}
		fracDigits = append(fracDigits, r)
	}
	var wantF []int
	for _, q := range groupPositions(p.fracPart, false) {
		if q < len(fracDigits) {
			wantF = append(wantF, q)
		}
	}
	if fmt.Sprint(fsepAt) != fmt.Sprint(wantF) {
		return fmt.Sprintf("fraction grouping separators at positions %v (found at %v)", wantF, fsepAt)
	}
	minInt, minFrac := countRune(p.intPart, '0'), countRune(p.fracPart, '0')
	maxFrac := minFrac + countRune(p.fracPart, '#')
	if len(intDigits) < minInt {
		return fmt.Sprintf("at least %d integer digits", minInt)
	}
	if !isExp && (len(fracDigits) < minFrac || len(fracDigits) > maxFrac) && !(minInt == 0 && maxFrac == 0) {
		return fmt.Sprintf("between %d and %d fraction digits", minFrac, maxFrac)
	}
	if len(intDigits)+len(fracDigits) == 0 {
		return "at least one digit"
	}
	// value
	num := new(big.Int)
	for _, d := range append(append([]rune{}, intDigits...), fracDigits...) {
		num.Mul(num, ten)
		num.Add(num, big.NewInt(int64(d-s.zero)))
	}
	got := new(big.Rat).Mul(new(big.Rat).SetInt(num), pow10Rat(-len(fracDigits)))
	want := ratOfShortest(x)
	want.Abs(want)
	switch p.mode {
	case "%":
		want.Mul(want, pow10Rat(2))
	case "‰":
		want.Mul(want, pow10Rat(3))
	}
	digits := maxFrac
	if isExp {
		want.Mul(want, pow10Rat(-expVal)) // the mantissa
		if maxFrac == 0 && minInt == 0 {
			digits = 1
		}
		if len(fracDigits) > digits {
			digits = len(fracDigits)
		}
	}
	scaled := new(big.Rat).Mul(want, pow10Rat(digits))
	n, tie := roundHalfEven(scaled)
	cand := []*big.Rat{new(big.Rat).Mul(new(big.Rat).SetInt(n), pow10Rat(-digits))}
	if tie { // 'rounded': either direction is accepted on an exact decimal tie
		up := new(big.Int).Add(new(big.Int).Div(scaled.Num(), scaled.Denom()), big.NewInt(1))
		down := new(big.Int).Div(scaled.Num(), scaled.Denom())
		cand = append(cand, new(big.Rat).Mul(new(big.Rat).SetInt(up), pow10Rat(-digits)), new(big.Rat).Mul(new(big.Rat).SetInt(down), pow10Rat(-digits)))
	}
	gf, _ := got.Float64()
	for _, c := range cand {
		// 'reads back': the numeral denotes the same double as the expected value
		if cf, _ := c.Float64(); c.Cmp(got) == 0 || cf == gf {
			return ""
		}
	}
	return fmt.Sprintf("a numeral that reads back as %s (x rounded to %d fraction digits); it reads back as %s", cand[0].FloatString(digits+2), digits, got.FloatString(digits+2))
}

var c18IntParts = []string{"0", "#", "#0", "00", "#,##0", "#,#00", "0,000", "##,#,#0", "#,##,##0", "#,####,#0", "#,######,##0", "#,##,#0"}
var c18FracParts = []string{"", "0", "#", "00", "0#", "##", "000,0"}
var c18Modes = []string{"", "%", "‰", "e0", "e00"}
var c18Values = []float64{0, negZero, 1, -1, 0.5, 1.5, 2.5, -2.5, 0.125, 12.345, 999.995, 1234.5678, 1234567, 12345678, 123456789012, 1e-7, 1e15, 1e21, 0.00012, -1234.5678, 99.5, 9.96,
	// doubles next to a tie, and decimals whose scaled value (percent, per-mille, mantissa) is not exact in binary
	0.49999999999999994, 1.6500000000000001, 999.9499999999999, 0.10155, 0.009575, 2.675, 1.005, 0.285, 1234.5649999999998, 8.345e-7}

var negZero = func() float64 { z := 0.0; return -z }()

func c18FormatPhases() []explore.Phase {
	run := func(devBound int) func(c *explore.Chooser, x *explore.Ctx, size int) {
		return func(c *explore.Chooser, x *explore.Ctx, _ int) {
			p := &c18Picture{intPart: c18IntParts[c.Choose(len(c18IntParts))], fracPart: c18FracParts[c.Choose(len(c18FracParts))], mode: c18Modes[c.Choose(len(c18Modes))]}
			switch c.Choose(4) {
			case 1:
				p.prefix = "$"
			case 2:
				p.suffix = " x"
			case 3:
				p.prefix, p.suffix = "$", " x"
			}
			p.second = []string{"", "paren", "minus"}[c.Choose(3)]
			v := c18Values[c.Choose(len(c18Values))]
			syms := defaultSyms()
			// deviations from the default decimal format: exactly devBound options changed
			first := -1
			for d := 0; d < devBound; d++ {
				k := c.Choose(len(c18OptionDeviations))
				if k <= first {
					c.Done()
					return // unordered pairs once
				}
				first = k
				syms.apply(c18OptionDeviations[k].name, c18OptionDeviations[k].val)
			}
			c.Done()
			pic := p.text(&syms)
			doc := map[string]interface{}{"x": v, "p": pic}
			prog := "$formatNumber(x, p)"
			if devBound > 0 {
				o := map[string]interface{}{}
				for k, val := range syms.opts {
					o[k] = val
				}
				doc["o"] = o
				prog = "$formatNumber(x, p, o)"
			}
			got := c16Expect(x, prog, doc, nil, false, false)
			x.Validated()
			in := jsonText(doc)
			if got.Kind != impl.Value {
				x.Violation("value", "value:"+prog+"|"+in, explore.Detail{Program: prog, Input: in, Expected: "a numeral: the picture is valid", Observed: got.String()})
				return
			}
			out, _ := got.Val.(string)
			if why := c18CheckFormatted(out, v, p, &syms); why != "" {
				x.Violation("value", "value:"+prog+"|"+in, explore.Detail{Program: prog, Input: in, Expected: why, Observed: got.String()})
			}
			x.Nontrivial()
			x.Outcome(got.Short())
			x.Sample(func() string { return prog + " on " + in + " => " + out })
		}
	}
	return []explore.Phase{
		{Name: "format-number-readback", Quick: []int{0}, Run: run(0)},
		{Name: "format-number-options-1", Quick: []int{1}, Run: run(1)},
		{Name: "format-number-options-2", Thorough: []int{2}, Run: run(2)},
		c18MutationPhase(),
	}
}

// refValidSubpicture: the validity rules of the XPath 3.1 decimal-format
// grammar for one sub-picture in default symbols.
func refValidSubpicture(sp string) bool {
	if sp == "" {
		return false
	}
	rs := []rune(sp)
	isDigit := func(r rune) bool { return r >= '0' && r <= '9' }
	isActiveNoE := func(r rune) bool { return isDigit(r) || r == '#' || r == ',' || r == '.' }
	first, last := -1, -1
	for i, r := range rs {
		if isActiveNoE(r) {
			if first < 0 {
				first = i
			}
			last = i
		}
	}
	if strings.Count(sp, ".") > 1 || strings.Count(sp, "%") > 1 || strings.Count(sp, "‰") > 1 || (strings.Contains(sp, "%") && strings.Contains(sp, "‰")) {
		return false
	}
	if first < 0 {
		return false // no digit at all
	}
	active := rs[first : last+1]
	// an 'e' between active characters is the exponent separator
	expAt := -1
	nExp := 0
	for i, r := range active {
		if r == 'e' {
			nExp++
			if expAt < 0 {
				expAt = i
			}
			continue
		}
		if !isActiveNoE(r) {
			return false // passive character between active ones
		}
	}
	if nExp > 1 {
		return false
	}
	mant, expo := active, []rune(nil)
	if expAt >= 0 {
		mant, expo = active[:expAt], active[expAt+1:]
		if strings.Contains(sp, "%") || strings.Contains(sp, "‰") {
			return false
		}
		if len(expo) == 0 {
			return false
		}
		for _, r := range expo {
			if !isDigit(r) {
				return false
			}
		}
	}
	hasDigit := false
	for _, r := range mant {
		if isDigit(r) || r == '#' {
			hasDigit = true
		}
	}
	if !hasDigit {
		return false
	}
	ms := string(mant)
	ip, fp := ms, ""
	hasDec := false
	if i := strings.Index(ms, "."); i >= 0 {
		ip, fp, hasDec = ms[:i], ms[i+1:], true
	}
	if strings.Contains(ms, ",,") {
		return false
	}
	if strings.HasSuffix(ip, ",") || strings.HasPrefix(fp, ",") {
		return false
	}
	_ = hasDec
	seenDecimal := false
	for _, r := range ip {
		if isDigit(r) {
			seenDecimal = true
		}
		if r == '#' && seenDecimal {
			return false
		}
	}
	seenOpt := false
	for _, r := range fp {
		if r == '#' {
			seenOpt = true
		}
		if isDigit(r) && seenOpt {
			return false
		}
	}
	return true
}

func refValidPicture(pic string) bool {
	subs := strings.Split(pic, ";")
	if len(subs) > 2 {
		return false
	}
	for _, s := range subs {
		if !refValidSubpicture(s) {
			return false
		}
	}
	return true
}

func c18MutationPhase() explore.Phase {
	alphabet := []string{"0", "#", ",", ".", ";", "%", "‰", "e", "x", "9"}
	return explore.Phase{Name: "format-number-picture-validity", Quick: []int{1}, Run: func(c *explore.Chooser, x *explore.Ctx, _ int) {
		p := &c18Picture{intPart: c18IntParts[c.Choose(9)], fracPart: c18FracParts[c.Choose(len(c18FracParts))], mode: c18Modes[c.Choose(len(c18Modes))]}
		if c.Bool() {
			p.prefix, p.suffix = "$", " x"
		}
		if c.Bool() {
			p.second = "paren"
		}
		syms := defaultSyms()
		base := []rune(p.text(&syms))
		pos := c.Choose(len(base) + 1)
		kind := c.Choose(3)
		var mut string
		switch kind {
		case 0: // delete
			if pos >= len(base) {
				c.Done()
				return
			}
			mut = string(base[:pos]) + string(base[pos+1:])
		case 1: // duplicate
			if pos >= len(base) {
				c.Done()
				return
			}
			mut = string(base[:pos+1]) + string(base[pos:])
		default: // insert
			mut = string(base[:pos]) + alphabet[c.Choose(len(alphabet))] + string(base[pos:])
		}
		v := []float64{1234.5, -0.5, 0}[c.Choose(3)]
		c.Done()
		doc := map[string]interface{}{"x": v, "p": mut}
		got := c16Expect(x, "$formatNumber(x, p)", doc, nil, false, false)
		x.Validated()
		valid := refValidPicture(mut)
		in := jsonText(doc)
		if valid && got.Kind != impl.Value {
			x.Violation("value", "picture:"+mut, explore.Detail{Program: "$formatNumber(x, p)", Input: in, Expected: "a numeral: the picture is inside the decimal-format grammar", Observed: got.String()})
		}
		if !valid && got.Kind != impl.Error {
			x.Violation("value", "picture:"+mut, explore.Detail{Program: "$formatNumber(x, p)", Input: in, Expected: "an error: the picture is outside the decimal-format grammar", Observed: got.String()})
		}
		if valid {
			x.Nontrivial()
		}
		x.Outcome(fmt.Sprint(valid))
	}}
}

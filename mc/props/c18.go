package props

import (
	"math"
	"math/big"
	"regexp"
	"strconv"
	"strings"

	"verif/mc/explore"
	"verif/mc/impl"
)

// sigDigits extracts the significant decimal digits of a numeral (sign,
// point, exponent and leading/trailing zeros removed).
func sigDigits(s string) string {
	if i := strings.IndexAny(s, "eE"); i >= 0 {
		s = s[:i]
	}
	s = strings.TrimLeft(s, "+-")
	s = strings.Replace(s, ".", "", 1)
	s = strings.TrimLeft(s, "0")
	s = strings.TrimRight(s, "0")
	return s
}

// ratOfShortest is the exact rational value of x's shortest decimal form.
func ratOfShortest(x float64) *big.Rat {
	r, _ := new(big.Rat).SetString(strconv.FormatFloat(x, 'e', -1, 64))
	return r
}

var ten = big.NewInt(10)

func pow10Rat(p int) *big.Rat {
	if p >= 0 {
		return new(big.Rat).SetInt(new(big.Int).Exp(ten, big.NewInt(int64(p)), nil))
	}
	return new(big.Rat).SetFrac(big.NewInt(1), new(big.Int).Exp(ten, big.NewInt(int64(-p)), nil))
}

// roundHalfEven rounds r to an integer, ties to even; tie reports an exact tie.
func roundHalfEven(r *big.Rat) (n *big.Int, tie bool) {
	num, den := new(big.Int).Set(r.Num()), r.Denom()
	q, m := new(big.Int).DivMod(num, den, new(big.Int)) // floor division (den > 0)
	twice := new(big.Int).Lsh(m, 1)
	switch twice.Cmp(den) {
	case 1:
		q.Add(q, big.NewInt(1))
	case 0:
		tie = true
		if q.Bit(0) == 1 {
			q.Add(q, big.NewInt(1))
		}
	}
	return q, tie
}

// refRound is x's shortest decimal value rounded half-to-even at the p-th fraction digit.
func refRound(x float64, p int) float64 {
	scaled := new(big.Rat).Mul(ratOfShortest(x), pow10Rat(p))
	n, _ := roundHalfEven(scaled)
	res := new(big.Rat).Mul(new(big.Rat).SetInt(n), pow10Rat(-p))
	f, _ := strconv.ParseFloat(res.FloatString(40), 64)
	return f
}

var reNumberSyntax = regexp.MustCompile(`^-?[0-9]+(\.[0-9]+)?([eE][-+]?[0-9]+)?$`)

func c18Num(x *explore.Ctx, prog string, doc map[string]interface{}, want float64, wantErr bool) impl.Outcome {
	if wantErr {
		return c16Expect(x, prog, doc, nil, true, true)
	}
	return c16Expect(x, prog, doc, want, false, true)
}

func init() {
	explore.Register(&explore.Prop{
		ID:        "C18",
		Title:     "Number conversion, rounding and formatting are exact and always terminate",
		Technique: "exhaustive enumeration of decimal grids, all number-like strings up to a length, exact ties at every digit position, base/precision ranges and pictures generated from the decimal-format grammar, with strconv/math/big exact oracles and a read-back checker, in watchdogged workers",
		Rule: "a case is one (function, number, parameter/picture) tuple supplied through the input document; oracle: exact results from math/big on the shortest decimal form, strconv for parsing, " +
			"a read-back checker for $formatNumber; non-trivial when the function returns a value",
		Assumptions: []string{
			"doubles outside the enumerated grids are not covered",
			"fractional bases: the base is rounded first (jsonata-js and the port agree); only the numeral for the rounded base is checked",
			"$formatNumber ties may round half-even or half-up (the statement says 'rounded')",
		},
		HangCPU: 10,
		Phases:  append(c18Phases(), c18FormatPhases()...),
	})
}

func c18Phases() []explore.Phase {
	return []explore.Phase{
		{Name: "string-number-roundtrip", Quick: []int{999}, Thorough: []int{9999}, Run: func(c *explore.Chooser, x *explore.Ctx, maxM int) {
			var v float64
			switch kind := c.Choose(3); kind {
			case 0: // decimals m * 10^e
				m := c.Range(-maxM, maxM)
				e := c.Range(-12, 21)
				v, _ = strconv.ParseFloat(strconv.Itoa(m)+"e"+strconv.Itoa(e), 64)
			case 1: // powers of two
				v = math.Ldexp(1, c.Range(-60, 70))
				if c.Bool() {
					v = -v
				}
			default: // a few specials
				v = []float64{0, math.Copysign(0, -1), 5e-324, 1.7976931348623157e308, -1.7976931348623157e308, 0.1, 0.2, 0.30000000000000004, 1e21, 1e-7, 123456789012345680000, 9007199254740993}[c.Choose(12)]
			}
			nb := c.Choose(3) // the value itself and its neighbours
			c.Done()
			switch nb {
			case 1:
				v = math.Nextafter(v, math.Inf(1))
			case 2:
				v = math.Nextafter(v, math.Inf(-1))
			}
			if math.IsInf(v, 0) {
				return
			}
			doc := map[string]interface{}{"x": v}
			got := c16Expect(x, "$string(x)", doc, nil, false, false)
			x.Validated()
			if got.Kind != impl.Value {
				x.Violation("value", "value:$string(x)|"+jsonText(doc), explore.Detail{Program: "$string(x)", Input: jsonText(doc), Expected: "a numeral", Observed: got.String()})
				return
			}
			s, _ := got.Val.(string)
			back, err := strconv.ParseFloat(s, 64)
			if err != nil || back != v || sigDigits(s) != sigDigits(strconv.FormatFloat(v, 'e', -1, 64)) {
				x.Violation("value", "value:$string(x)|"+jsonText(doc), explore.Detail{Program: "$string(x)", Input: jsonText(doc),
					Expected: "the shortest decimal form that reads back to the same double (digits " + sigDigits(strconv.FormatFloat(v, 'e', -1, 64)) + ")", Observed: got.String()})
			}
			c16Expect(x, "$number($string(x)) = x", doc, true, false, true)
			x.Nontrivial()
			x.Outcome(got.Short())
		}},
		{Name: "number-parser", Quick: []int{0, 1, 2, 3, 4, 5}, Thorough: []int{0, 1, 2, 3, 4, 5, 6}, Run: func(c *explore.Chooser, x *explore.Ctx, n int) {
			s := c16StringN(c, n, []string{"0", "1", "9", "-", "+", ".", "e", "E", " ", "x"})
			c.Done()
			doc := map[string]interface{}{"s": s}
			f, err := strconv.ParseFloat(s, 64)
			ok := reNumberSyntax.MatchString(s) && err == nil && !math.IsInf(f, 0)
			got := c18Num(x, "$number(s)", doc, f, !ok)
			x.Outcome(got.Short())
			if ok {
				x.Nontrivial()
			}
		}},
		{Name: "number-of-other-kinds", Quick: []int{1}, ShardDepth: -1, Run: func(c *explore.Chooser, x *explore.Ctx, _ int) {
			cases := []struct {
				prog string
				want interface{}
				err  bool
			}{{"$number(true)", 1.0, false}, {"$number(false)", 0.0, false}, {"$number(5)", 5.0, false}, {`$number("")`, nil, true}, {"$number([])", nil, true}, {"$number({})", nil, true},
				{"$number(null)", nil, true}, {`$number("0x10")`, nil, true}, {`$number("Infinity")`, nil, true}, {`$number("NaN")`, nil, true}, {`$number(" 1")`, nil, true}, {`$number("1 ")`, nil, true},
				{`$number("1e1000")`, nil, true}, {`$number("-1e1000")`, nil, true}, {`$number("1e-1000")`, 0.0, false}, {`$number("007")`, 7.0, false}, {`$number(".5")`, nil, true}, {`$number("5.")`, nil, true},
				{`$number("+5")`, nil, true}}
			k := cases[c.Choose(len(cases))]
			c.Done()
			c16Expect(x, k.prog, map[string]interface{}{}, k.want, k.err, true)
		}},
		{Name: "round", Quick: []int{300}, Thorough: []int{2000}, Run: func(c *explore.Chooser, x *explore.Ctx, maxK int) {
			k := c.Range(-maxK, maxK)
			d := c.Range(-4, 4) // k * 10^-d: decimal fractions and multiples of powers of ten (ties at every digit position, both sides of the point)
			p := c.Range(-6, 12)
			nb := c.Choose(3)
			c.Done()
			v, _ := strconv.ParseFloat(strconv.Itoa(k)+"e"+strconv.Itoa(-d), 64)
			switch nb {
			case 1:
				v = math.Nextafter(v, math.Inf(1))
			case 2:
				v = math.Nextafter(v, math.Inf(-1))
			}
			if math.Abs(v)*math.Pow(10, float64(p)) >= 1<<53 {
				return
			}
			doc := map[string]interface{}{"x": v}
			want := refRound(v, p)
			got := c18Num(x, "$round(x, "+itoaSigned(p)+")", doc, want, false)
			if p == 0 && nb == 0 {
				c18Num(x, "$round(x)", doc, want, false)
			}
			x.Outcome(got.Short())
			x.Nontrivial()
		}},
		{Name: "math-grids", Quick: []int{1}, Run: func(c *explore.Chooser, x *explore.Ctx, _ int) {
			grid := []float64{0, math.Copysign(0, -1), 1, -1, 2, 0.5, -2.5, 3, 1e308, -1e308, 5e-324, 1e21, 123456789012}
			for v := -10.0; v <= 10; v += 0.5 {
				grid = append(grid, v)
			}
			a := grid[c.Choose(len(grid))]
			fn := c.Choose(5)
			var b float64
			if fn == 4 {
				b = []float64{-3, -2.5, -2, -1.5, -1, -0.5, 0, 0.5, 1, 1.5, 2, 2.5, 3, 309, 1025}[c.Choose(15)]
			}
			c.Done()
			doc := map[string]interface{}{"x": a, "y": b}
			var got impl.Outcome
			switch fn {
			case 0:
				got = c18Num(x, "$floor(x)", doc, math.Floor(a), false)
			case 1:
				got = c18Num(x, "$ceil(x)", doc, math.Ceil(a), false)
			case 2:
				got = c18Num(x, "$abs(x)", doc, math.Abs(a), false)
			case 3:
				got = c18Num(x, "$sqrt(x)", doc, math.Sqrt(a), a < 0)
			default:
				r := math.Pow(a, b)
				got = c18Num(x, "$power(x, y)", doc, r, math.IsNaN(r) || math.IsInf(r, 0))
			}
			x.Outcome(got.Short())
			if got.Kind == impl.Value {
				x.Nontrivial()
			}
		}},
		{Name: "format-base", Quick: []int{200}, Thorough: []int{1000}, Run: func(c *explore.Chooser, x *explore.Ctx, maxX int) {
			var v float64
			switch kind := c.Choose(3); kind {
			case 0:
				v = float64(c.Range(-maxX, maxX))
			case 1:
				v = float64(c.Range(-20, 20)) + 0.5
			default:
				v = []float64{1 << 53, -(1 << 53), 9223372036854774784, -9223372036854774784, 0.49999999999999994, 1e15 + 0.5}[c.Choose(6)]
			}
			bases := []float64{0, 1, 1.4, 1.5, 2, 3, 7, 8, 10, 16, 35, 36, 36.4, 36.5, 36.6, 37, 40, -2, 2.5, 10.5}
			bi := c.Choose(len(bases) + 1)
			c.Done()
			doc := map[string]interface{}{"x": v}
			n, _ := roundHalfEven(new(big.Rat).SetFloat64(v)) // x itself, rounded to an integer
			if bi == len(bases) {
				c16Expect(x, "$formatBase(x)", doc, n.Text(10), false, true)
				x.Nontrivial()
				return
			}
			b := bases[bi]
			doc["b"] = b
			if b != math.Trunc(b) && b >= 2 && b <= 36 {
				// fractional base inside the range: rounded first; only the numeral for the rounded base is checked
				rb, _ := roundHalfEven(ratOfShortest(b))
				got := c16Expect(x, "$formatBase(x, b)", doc, nil, false, false)
				if got.Kind == impl.Value && rb.Int64() >= 2 && rb.Int64() <= 36 {
					c16Expect(x, "$formatBase(x, b)", doc, n.Text(int(rb.Int64())), false, true)
				}
				return
			}
			if b < 2 || b > 36 {
				c16Expect(x, "$formatBase(x, b)", doc, nil, true, true)
				return
			}
			c16Expect(x, "$formatBase(x, b)", doc, n.Text(int(b)), false, true)
			x.Nontrivial()
		}},
	}
}

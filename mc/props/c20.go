package props

import (
	"errors"
	"fmt"
	"reflect"
	"sort"
	"strings"

	jsonata "github.com/blues/jsonata-go"
	"github.com/blues/jsonata-go/jtypes"

	"verif/mc/explore"
	"verif/mc/impl"
)

// ---- parameter types --------------------------------------------------------

type c20T int

const (
	tF64 c20T = iota
	tInt
	tU8
	tStr
	tBool
	tBytes
	tAny
	tRV
	tArr
	tMap
	tFn
	tOptF64
	tOptInt
	tOptStr
	tOptBool
	tOptAny
	tOptRV
	tOptFn
	c20NumTypes
)

var c20TypeNames = []string{"float64", "int", "uint8", "string", "bool", "[]byte", "interface{}", "reflect.Value", "[]interface{}", "map[string]interface{}", "jtypes.Callable",
	"OptionalFloat64", "OptionalInt", "OptionalString", "OptionalBool", "OptionalInterface", "OptionalValue", "OptionalCallable"}

var c20GoTypes = []reflect.Type{
	reflect.TypeOf(float64(0)), reflect.TypeOf(int(0)), reflect.TypeOf(uint8(0)), reflect.TypeOf(""), reflect.TypeOf(false), reflect.TypeOf([]byte(nil)),
	jtypes.TypeInterface, jtypes.TypeValue, reflect.TypeOf([]interface{}(nil)), reflect.TypeOf(map[string]interface{}(nil)), jtypes.TypeCallable,
	reflect.TypeOf(jtypes.OptionalFloat64{}), reflect.TypeOf(jtypes.OptionalInt{}), reflect.TypeOf(jtypes.OptionalString{}), reflect.TypeOf(jtypes.OptionalBool{}),
	reflect.TypeOf(jtypes.OptionalInterface{}), reflect.TypeOf(jtypes.OptionalValue{}), reflect.TypeOf(jtypes.OptionalCallable{}),
}

func (t c20T) optional() bool { return t >= tOptF64 }
func (t c20T) under() c20T {
	switch t {
	case tOptF64:
		return tF64
	case tOptInt:
		return tInt
	case tOptStr:
		return tStr
	case tOptBool:
		return tBool
	case tOptAny:
		return tAny
	case tOptRV:
		return tRV
	case tOptFn:
		return tFn
	}
	return t
}

// ---- argument kinds ------------------------------------------------------------

type c20Kind int

const (
	kNum c20Kind = iota
	kStr
	kBool
	kArr
	kObj
	kLambda
	kBuiltin
	kMissing
	kInputArr
	kSeq
	kNull
	kNegNum
	c20NumKinds
)

var c20KindSrc = []string{"2.5", `"s"`, "true", `[1, "a"]`, `{"k": 1}`, "function($x){$x}", "$sum", "nothing", "arr", "items.v", "null", "(-2.5)"}
var c20KindPayload = []string{"2.5", `"s"`, "true", `[1,"a"]`, `{"k":1}`, "<function>", "<function>", "", `[1,"a"]`, `[1,"a"]`, "null", "-2.5"}

var c20Doc = map[string]interface{}{"arr": []interface{}{1.0, "a"}, "items": []interface{}{map[string]interface{}{"v": 1.0}, map[string]interface{}{"v": "a"}}, "c": "ctx", "n": 9.0}

// c20Conv is the reference conversion relation: what a parameter of type t
// receives for an argument of kind k (ok=false: the argument does not fit).
func c20Conv(t c20T, k c20Kind) (string, bool) {
	if k == kMissing {
		switch {
		case t.optional():
			return "opt:unset", true
		case t == tAny:
			return "any:nil", true
		case t == tRV:
			return "rv:invalid", true
		}
		return "", false
	}
	if t.optional() {
		s, ok := c20Conv(t.under(), k)
		return "opt:" + s, ok
	}
	isArr := k == kArr || k == kInputArr || k == kSeq
	isFn := k == kLambda || k == kBuiltin
	p := c20KindPayload[k]
	switch t {
	case tAny:
		return "any:" + p, true
	case tRV:
		return "rv:" + p, true
	case tF64:
		if k == kNum {
			return "f64:2.5", true
		}
		if k == kNegNum {
			return "f64:-2.5", true
		}
	case tInt:
		if k == kNum {
			return "int:2", true
		}
		if k == kNegNum {
			return "int:-2", true // conversion to an integer kind drops the fraction
		}
	case tU8:
		if k == kNum {
			return "u8:2", true
		}
	case tStr:
		if k == kStr {
			return `str:"s"`, true
		}
	case tBytes:
		if k == kStr {
			return `bytes:"s"`, true
		}
	case tBool:
		if k == kBool {
			return "bool:true", true
		}
	case tArr:
		if isArr {
			return "arr:" + p, true
		}
	case tMap:
		if k == kObj {
			return "map:" + p, true
		}
	case tFn:
		if isFn {
			return "fn", true
		}
	}
	return "", false
}

func c20RenderDyn(v interface{}) string {
	if rv := reflect.ValueOf(v); rv.Kind() == reflect.Ptr && rv.IsNil() {
		return "null"
	}
	return impl.Render(impl.Normalize(v))
}

// c20RenderArg renders what the Go function actually received.
func c20RenderArg(t c20T, v reflect.Value) string {
	switch t {
	case tF64:
		return "f64:" + impl.Render(v.Float())
	case tInt:
		return fmt.Sprintf("int:%d", v.Int())
	case tU8:
		return fmt.Sprintf("u8:%d", v.Uint())
	case tStr:
		return fmt.Sprintf("str:%q", v.String())
	case tBool:
		return fmt.Sprintf("bool:%v", v.Bool())
	case tBytes:
		return fmt.Sprintf("bytes:%q", string(v.Bytes()))
	case tAny:
		if v.IsNil() {
			return "any:nil"
		}
		return "any:" + c20RenderDyn(v.Interface())
	case tRV:
		inner := v.Interface().(reflect.Value)
		if !inner.IsValid() {
			return "rv:invalid"
		}
		if !inner.CanInterface() {
			return "rv:<unexported>"
		}
		return "rv:" + c20RenderDyn(inner.Interface())
	case tArr:
		return "arr:" + c20RenderDyn(v.Interface())
	case tMap:
		return "map:" + c20RenderDyn(v.Interface())
	case tFn:
		if v.IsNil() {
			return "fn:nil"
		}
		return "fn"
	}
	// optional types
	p := reflect.New(v.Type())
	p.Elem().Set(v)
	if !p.Interface().(jtypes.Optional).IsSet() {
		return "opt:unset"
	}
	return "opt:" + c20RenderArg(t.under(), p.Elem().Field(1))
}

// ---- function manufacture -------------------------------------------------------

var typeErr = reflect.TypeOf((*error)(nil)).Elem()
var errBoom = errors.New("boom from the extension")

type c20Fn struct {
	params   []c20T
	variadic bool
	results  int // 1 or 2
	errMode  int // 0 nil, 1 errBoom, 2 jtypes.ErrUndefined
	calls    []string
}

func (f *c20Fn) goFunc() interface{} {
	in := make([]reflect.Type, len(f.params))
	for i, t := range f.params {
		in[i] = c20GoTypes[t]
	}
	if f.variadic {
		in[len(in)-1] = reflect.SliceOf(in[len(in)-1])
	}
	out := []reflect.Type{jtypes.TypeInterface}
	if f.results == 2 {
		out = append(out, typeErr)
	}
	ft := reflect.FuncOf(in, out, f.variadic)
	return reflect.MakeFunc(ft, func(args []reflect.Value) []reflect.Value {
		parts := []string{}
		for i, a := range args {
			if f.variadic && i == len(args)-1 {
				for j := 0; j < a.Len(); j++ {
					parts = append(parts, "..."+c20RenderArg(f.params[i], a.Index(j)))
				}
				continue
			}
			parts = append(parts, c20RenderArg(f.params[i], a))
		}
		desc := "(" + strings.Join(parts, ", ") + ")"
		f.calls = append(f.calls, desc)
		var res interface{} = desc
		outv := []reflect.Value{reflect.ValueOf(&res).Elem()}
		if f.results == 2 {
			var err error
			switch f.errMode {
			case 1:
				err = errBoom
			case 2:
				err = jtypes.ErrUndefined
			}
			outv = append(outv, reflect.ValueOf(&err).Elem())
		}
		return outv
	}).Interface()
}

func (f *c20Fn) shapeValid() bool {
	seenOpt := false
	for i, t := range f.params {
		if seenOpt && !t.optional() {
			return false
		}
		if t.optional() {
			if f.variadic && i == len(f.params)-1 {
				return false
			}
			seenOpt = true
		}
	}
	return true
}

func (f *c20Fn) sig() string {
	ps := make([]string, len(f.params))
	for i, t := range f.params {
		ps[i] = c20TypeNames[t]
		if f.variadic && i == len(f.params)-1 {
			ps[i] = "..." + ps[i]
		}
	}
	r := "interface{}"
	if f.results == 2 {
		r = "(interface{}, error)"
	}
	return "func(" + strings.Join(ps, ", ") + ") " + r
}

// handler menus
var c20CtxHandlers = []struct {
	name string
	h    func(np int) jtypes.ArgHandler
}{
	{"nil", func(int) jtypes.ArgHandler { return nil }},
	{"ArgCountEquals(np-1)", func(np int) jtypes.ArgHandler { return jtypes.ArgCountEquals(np - 1) }},
	{"ArgCountEquals(0)", func(int) jtypes.ArgHandler { return jtypes.ArgCountEquals(0) }},
	{"always", func(int) jtypes.ArgHandler { return func([]reflect.Value) bool { return true } }}, // fires on a full argument list too
	{"ArgCountEquals(np)", func(np int) jtypes.ArgHandler { return jtypes.ArgCountEquals(np) }},
}
var c20UndHandlers = []struct {
	name string
	h    jtypes.ArgHandler
}{
	{"nil", nil}, {"ArgUndefined(0)", jtypes.ArgUndefined(0)}, {"ArgUndefined(1)", jtypes.ArgUndefined(1)},
}

// c20Predict is the reference rule for one call.
// ctxKind: the kind of the context item (kStr "ctx" or kNum 9 rendered via payload override).
func c20Predict(f *c20Fn, args []c20Kind, ctxH, undH int, ctxPayload string, ctxKind c20Kind) (kind string, detail string) {
	type arg struct {
		k   c20Kind
		ctx bool
	}
	argv := make([]arg, len(args))
	for i, k := range args {
		argv[i] = arg{k: k}
	}
	np := len(f.params)
	switch ctxH {
	case 1:
		if len(argv) == np-1 {
			argv = append([]arg{{k: ctxKind, ctx: true}}, argv...)
		}
	case 2:
		if len(argv) == 0 {
			argv = append([]arg{{k: ctxKind, ctx: true}}, argv...)
		}
	case 3:
		argv = append([]arg{{k: ctxKind, ctx: true}}, argv...)
	case 4:
		if len(argv) == np {
			argv = append([]arg{{k: ctxKind, ctx: true}}, argv...)
		}
	}
	switch undH {
	case 1:
		if len(argv) > 0 && argv[0].k == kMissing {
			return "novalue", ""
		}
	case 2:
		if len(argv) > 1 && argv[1].k == kMissing {
			return "novalue", ""
		}
	}
	for i := len(argv); i < np && f.params[i].optional(); i++ {
		argv = append(argv, arg{k: kMissing})
	}
	if f.variadic {
		if len(argv) < np-1 {
			return "argcount", ""
		}
	} else if len(argv) != np {
		return "argcount", ""
	}
	parts := []string{}
	for i, a := range argv {
		j := i
		if j >= np {
			j = np - 1
		}
		s, ok := c20Conv(f.params[j], a.k)
		if !ok {
			return "argtype", itoa(i + 1)
		}
		if a.ctx {
			s = strings.Replace(s, c20KindPayload[a.k], ctxPayload, 1)
			if a.k == kNum {
				s = strings.NewReplacer("f64:2.5", "f64:9", "int:2", "int:9", "u8:2", "u8:9").Replace(s)
			}
		}
		if f.variadic && i >= np-1 {
			s = "..." + s
		}
		parts = append(parts, s)
	}
	desc := "(" + strings.Join(parts, ", ") + ")"
	if f.results == 2 {
		switch f.errMode {
		case 1:
			return "error", desc
		case 2:
			return "novalue-called", desc
		}
	}
	return "value", desc
}

// c20Call registers f as $ext on a fresh expression and evaluates a call.
func c20Call(x *explore.Ctx, f *c20Fn, args []c20Kind, ctxH, undH int, viaCtx string) {
	srcs := make([]string, len(args))
	for i, k := range args {
		srcs[i] = c20KindSrc[k]
	}
	prog := "$ext(" + strings.Join(srcs, ", ") + ")"
	ctxKind, ctxPayload := kStr, `"ctx"`
	if viaCtx != "" {
		prog = viaCtx + "." + prog
		if viaCtx == "n" {
			ctxKind, ctxPayload = kNum, "9"
		}
	} else {
		ctxKind, ctxPayload = kObj, impl.Render(impl.Normalize(c20Doc))
	}
	desc := f.sig() + " ctx=" + c20CtxHandlers[ctxH].name + " undef=" + c20UndHandlers[undH].name + " :: " + prog
	x.Describe(func() string { return desc })
	x.Eval()
	var regErr, evalErr error
	var got interface{}
	f.calls = nil
	if x.Guard(desc, jsonText(c20Doc), func() {
		e := jsonata.MustCompile(prog)
		regErr = e.RegisterExts(map[string]jsonata.Extension{"ext": {Func: f.goFunc(), UndefinedHandler: c20UndHandlers[undH].h, EvalContextHandler: c20CtxHandlers[ctxH].h(len(f.params))}})
		if regErr == nil {
			got, evalErr = e.Eval(c20Doc)
		}
	}) {
		return
	}
	x.Validated()
	fail := func(expected, observed string) {
		x.Violation("value", "call:"+desc, explore.Detail{Program: desc, Input: jsonText(c20Doc), Expected: expected, Observed: observed})
	}
	if !f.shapeValid() {
		x.Outcome("rejected")
		if regErr == nil {
			fail("registration rejected (invalid function shape)", "registered")
		}
		return
	}
	if regErr != nil {
		fail("registration accepted", "registration error: "+regErr.Error())
		return
	}
	observed := ""
	switch {
	case evalErr != nil:
		observed = fmt.Sprintf("error %T %v", evalErr, evalErr)
	case got == nil:
		observed = "no value"
	default:
		observed = "value " + c20RenderDyn(got)
	}
	observed += fmt.Sprintf(" calls=%v", f.calls)
	kind, detail := c20Predict(f, args, ctxH, undH, ctxPayload, ctxKind)
	x.Outcome(kind)
	switch kind {
	case "value":
		x.Nontrivial()
		if evalErr != nil || got != interface{}(detail) || len(f.calls) != 1 || f.calls[0] != detail {
			fail("the function is called once with "+detail+" and its result is the value", observed)
		}
	case "novalue":
		if evalErr != jsonata.ErrUndefined || len(f.calls) != 0 {
			fail("no value, the function is not called", observed)
		}
	case "novalue-called":
		if evalErr != jsonata.ErrUndefined || len(f.calls) != 1 || f.calls[0] != detail {
			fail("the function is called once with "+detail+"; its jtypes.ErrUndefined makes the call yield no value", observed)
		}
	case "error":
		if evalErr == nil || !(evalErr == errBoom || errors.Is(evalErr, errBoom)) || len(f.calls) != 1 || f.calls[0] != detail {
			fail("the function is called once with "+detail+" and Eval returns its error", observed)
		}
	case "argcount":
		e, ok := evalErr.(*jsonata.ArgCountError)
		if !ok || e.Func != "ext" || len(f.calls) != 0 {
			fail("ArgCountError naming ext, the function is not called", observed)
		}
	case "argtype":
		e, ok := evalErr.(*jsonata.ArgTypeError)
		if !ok || e.Func != "ext" || itoa(e.Which) != detail || len(f.calls) != 0 {
			fail("ArgTypeError naming ext, argument "+detail+", the function is not called", observed)
		}
	}
	x.Sample(func() string { return desc + " => " + observed })
}

// ---- registry histories ------------------------------------------------------------

type c20Op struct {
	kind string // GE GV C LE LV
	slot int
	name string
	ver  int
}

func c20Menu() []c20Op {
	var m []c20Op
	for _, n := range []string{"f", "sum"} {
		for v := 1; v <= 2; v++ {
			m = append(m, c20Op{"GE", 0, n, v})
		}
	}
	for v := 1; v <= 2; v++ {
		m = append(m, c20Op{"GV", 0, "v", v})
	}
	for s := 0; s < 2; s++ {
		m = append(m, c20Op{"C", s, "", 0})
	}
	for s := 0; s < 2; s++ {
		for _, n := range []string{"f", "sum"} {
			for v := 1; v <= 2; v++ {
				m = append(m, c20Op{"LE", s, n, v})
			}
		}
		for v := 1; v <= 2; v++ {
			m = append(m, c20Op{"LV", s, "v", v})
		}
	}
	return m
}

func (o c20Op) String() string {
	switch o.kind {
	case "GE":
		return fmt.Sprintf("jsonata.RegisterExts(%s=G%d)", o.name, o.ver)
	case "GV":
		return fmt.Sprintf("jsonata.RegisterVars(v=G%d)", o.ver)
	case "C":
		return fmt.Sprintf("e%d=Compile", o.slot)
	case "LE":
		return fmt.Sprintf("e%d.RegisterExts(%s=L%d)", o.slot, o.name, o.ver)
	}
	return fmt.Sprintf("e%d.RegisterVars(v=L%d)", o.slot, o.ver)
}

const c20Probe = `[$exists($f) ? $f(0) : "-", $sum([1, 2]), $exists($v) ? $v : "-"]`

type c20World struct {
	exprs [2]*jsonata.Expr
	// model
	global map[string]string
	local  [2]map[string]string
}

func c20Tagged(tag string) jsonata.Extension {
	return jsonata.Extension{Func: func(interface{}) (interface{}, error) { return tag, nil }}
}

func c20NewWorld() *c20World {
	jsonata.VerifResetGlobalRegistry()
	return &c20World{global: map[string]string{}}
}

// apply performs one operation on the implementation and on the model; ok=false: not enabled.
func (w *c20World) apply(o c20Op) (bool, error) {
	tag := fmt.Sprintf("%s%d", map[string]string{"GE": "G", "GV": "G", "LE": "L", "LV": "L"}[o.kind], o.ver)
	switch o.kind {
	case "GE":
		w.global[o.name] = tag
		return true, jsonata.RegisterExts(map[string]jsonata.Extension{o.name: c20Tagged(tag)})
	case "GV":
		w.global[o.name] = tag
		return true, jsonata.RegisterVars(map[string]interface{}{o.name: tag})
	case "C":
		e, err := jsonata.Compile(c20Probe)
		w.exprs[o.slot] = e
		w.local[o.slot] = map[string]string{}
		for k, v := range w.global {
			w.local[o.slot][k] = v
		}
		return true, err
	case "LE":
		if w.exprs[o.slot] == nil {
			return false, nil
		}
		w.local[o.slot][o.name] = tag
		return true, w.exprs[o.slot].RegisterExts(map[string]jsonata.Extension{o.name: c20Tagged(tag)})
	default:
		if w.exprs[o.slot] == nil {
			return false, nil
		}
		w.local[o.slot][o.name] = tag
		return true, w.exprs[o.slot].RegisterVars(map[string]interface{}{o.name: tag})
	}
}

func c20Expect(m map[string]string) string {
	get := func(n, d string) string {
		if t, ok := m[n]; ok {
			return `"` + t + `"`
		}
		return d
	}
	return "[" + get("f", `"-"`) + "," + get("sum", "3") + "," + get("v", `"-"`) + "]"
}

// observe evaluates every compiled slot and a freshly compiled probe; returns
// the observation and the model's prediction.
func (w *c20World) observe() (obs, want string) {
	var o, m []string
	eval := func(e *jsonata.Expr) string {
		v, err := e.Eval(nil)
		if err != nil {
			return "error " + err.Error()
		}
		return impl.Render(impl.Normalize(v))
	}
	for s := 0; s < 2; s++ {
		if w.exprs[s] == nil {
			o, m = append(o, "-"), append(m, "-")
			continue
		}
		o = append(o, eval(w.exprs[s])+" names="+strings.Join(w.exprs[s].VerifRegistry(), ","))
		m = append(m, c20Expect(w.local[s])+" names="+sortedKeys(w.local[s]))
	}
	fresh, err := jsonata.Compile(c20Probe)
	if err != nil {
		return "compile error", ""
	}
	o = append(o, eval(fresh)+" global="+strings.Join(jsonata.VerifGlobalRegistry(), ","))
	m = append(m, c20Expect(w.global)+" global="+sortedKeys(w.global))
	return strings.Join(o, " | "), strings.Join(m, " | ")
}

func sortedKeys(m map[string]string) string {
	ks := make([]string, 0, len(m))
	for k := range m {
		ks = append(ks, k)
	}
	sort.Strings(ks)
	return strings.Join(ks, ",")
}

func c20DescribeHist(menu []c20Op, hist []int) string {
	s := make([]string, len(hist))
	for i, h := range hist {
		s[i] = menu[h].String()
	}
	return strings.Join(s, "; ")
}

// c20RunHist replays a history on a fresh world, checking the invariant after every step.
// Returns the final observation ("" when an operation was not enabled).
func c20RunHist(report func(kind, key string, d explore.Detail), menu []c20Op, hist []int) (string, bool) {
	w := c20NewWorld()
	defer jsonata.VerifResetGlobalRegistry()
	final := ""
	for i, h := range hist {
		ok, err := w.apply(menu[h])
		if !ok {
			return "", false
		}
		desc := c20DescribeHist(menu, hist[:i+1])
		if err != nil {
			report("value", "hist-error:"+desc, explore.Detail{Program: desc, Expected: "the operation succeeds", Observed: err.Error()})
			return "", false
		}
		obs, want := w.observe()
		if obs != want {
			report("value", "hist:"+desc, explore.Detail{Program: desc, Expected: want, Observed: obs,
				Note: "slots e0 | e1 | a freshly compiled expression; each evaluates " + c20Probe})
			return "", false
		}
		final = obs
	}
	return final, true
}

func c20BFS(env *explore.Env, res *explore.Result) {
	menu := c20Menu()
	maxDepth := 6
	if env.Tier == "thorough" {
		maxDepth = 9
	}
	phaseIx := -1
	p := explore.Lookup("C20")
	for i := range p.Phases {
		if p.Phases[i].Name == "registry-histories" {
			phaseIx = i
		}
	}
	var cur []int
	report := func(kind, key string, d explore.Detail) {
		for _, v := range res.Violations {
			if v.Key == key {
				return
			}
		}
		d.Note += " (found by the explicit-state search)"
		res.Violations = append(res.Violations, &explore.Violation{Kind: kind, Key: key, Phase: "registry-histories", PhaseIx: phaseIx, Size: len(cur),
			Choices: append([]int{}, cur...), Count: 1, NShards: 1, Detail: d})
	}
	seen := map[string]bool{}
	type st struct{ hist []int }
	frontier := []st{{}}
	w0 := c20NewWorld()
	o0, _ := w0.observe()
	seen[o0] = true
	transitions, depthReached := 0, 0
	for len(frontier) > 0 {
		s := frontier[0]
		frontier = frontier[1:]
		for op := range menu {
			h := append(append([]int{}, s.hist...), op)
			cur = h
			obs, ok := c20RunHist(report, menu, h)
			if !ok {
				continue
			}
			transitions++
			if !seen[obs] {
				seen[obs] = true
				if len(h) > depthReached {
					depthReached = len(h)
				}
				if len(h) < maxDepth {
					frontier = append(frontier, st{h})
				}
			}
		}
	}
	res.Extra["e3_states"] = len(seen)
	res.Extra["e3_transitions"] = transitions
	res.Extra["e3_depth_bound"] = maxDepth
	res.Extra["e3_deepest_new_state"] = depthReached
	res.Extra["e3_menu"] = len(menu)
	res.Stats = append(res.Stats, &explore.PhaseStat{Phase: "registry-bfs", Size: maxDepth, Leaves: int64(len(seen)), Edges: int64(transitions), Validated: int64(transitions), Complete: true})
}

// ---- property ---------------------------------------------------------------------

func init() {
	reduced := []c20T{tF64, tStr, tAny, tOptInt, tOptStr}
	reducedKinds := []c20Kind{kNum, kStr, kMissing}
	explore.Register(&explore.Prop{
		ID:        "C20",
		Title:     "Extensions: faithful argument passing, typed failures, registry visibility",
		Technique: "exhaustive enumeration of reflect-manufactured Go functions (parameter lists x variadic x result shapes x handler combinations) x argument lists over every value kind, against a reference conversion relation; all registration histories up to a depth checked step by step against a map model, plus explicit-state BFS on observed registry states",
		Rule: "a case is one (function shape, handlers, argument list) call on a fresh expression, or one history of Compile / package-level / Expr-level registrations; oracle: the reference conversion relation and count rule " +
			"(what the Go function must receive, or which typed error names which position), and a map model of registry visibility (an Expr sees the package registry as of its compilation plus its own registrations)",
		Assumptions: []string{
			"numbers passed to integer parameters are within range (2.5 -> 2); out-of-range conversions are implementation-defined in Go and not generated",
			"the argument position named by ArgTypeError counts a context item prepended by the EvalContextHandler",
			"Variant parameter types and jtypes.Convertible arguments are outside the bound",
		},
		Post: c20BFS,
		Phases: []explore.Phase{
			{Name: "conversion-relation", Quick: []int{1}, ShardDepth: 2, Run: func(c *explore.Chooser, x *explore.Ctx, _ int) {
				// every (parameter type, argument kind) pair, plain and as the variadic tail, one or two results
				t := c20T(c.Choose(int(c20NumTypes)))
				k := c20Kind(c.Choose(int(c20NumKinds)))
				variadic := c.Bool()
				results := 1 + c.Choose(2)
				errMode := 0
				if results == 2 {
					errMode = c.Choose(3)
				}
				nargs := 1
				if variadic {
					nargs = c.Choose(3) // 0, 1 or 2 arguments in the tail
				}
				c.Done()
				if k == kNegNum && t.under() == tU8 {
					return // a negative number has no unsigned value: the statement is silent
				}
				args := make([]c20Kind, nargs)
				for i := range args {
					args[i] = k
				}
				c20Call(x, &c20Fn{params: []c20T{t}, variadic: variadic, results: results, errMode: errMode}, args, 0, 0, "")
			}},
			{Name: "two-params", Quick: []int{0, 1, 2, 3}, ShardDepth: 3, Run: func(c *explore.Chooser, x *explore.Ctx, nargs int) {
				np := c.Choose(3)
				params := make([]c20T, np)
				for i := range params {
					params[i] = c20T(c.Choose(int(c20NumTypes)))
				}
				variadic := np > 0 && c.Bool()
				args := make([]c20Kind, nargs)
				for i := range args {
					args[i] = c20Kind(c.Choose(9)) // all kinds except the sequence and null duplicates
				}
				c.Done()
				c20Call(x, &c20Fn{params: params, variadic: variadic, results: 1}, args, 0, 0, "")
			}},
			{Name: "long-lists", Quick: []int{3}, Thorough: []int{3, 4}, ShardDepth: 3, Run: func(c *explore.Chooser, x *explore.Ctx, np int) {
				params := make([]c20T, np)
				for i := range params {
					params[i] = reduced[c.Choose(len(reduced))]
				}
				variadic := c.Bool()
				nargs := c.Choose(6)
				args := make([]c20Kind, nargs)
				for i := range args {
					args[i] = reducedKinds[c.Choose(len(reducedKinds))]
				}
				c.Done()
				c20Call(x, &c20Fn{params: params, variadic: variadic, results: 2}, args, 0, 0, "")
			}},
			{Name: "handlers", Quick: []int{1, 2}, Thorough: []int{1, 2, 3}, ShardDepth: 3, Run: func(c *explore.Chooser, x *explore.Ctx, np int) {
				params := make([]c20T, np)
				for i := range params {
					params[i] = reduced[c.Choose(len(reduced))]
				}
				variadic := c.Bool()
				ctxH := c.Choose(len(c20CtxHandlers))
				undH := c.Choose(len(c20UndHandlers))
				nargs := c.Choose(4)
				args := make([]c20Kind, nargs)
				for i := range args {
					args[i] = reducedKinds[c.Choose(len(reducedKinds))]
				}
				via := []string{"c", "n"}[c.Choose(2)]
				c.Done()
				c20Call(x, &c20Fn{params: params, variadic: variadic, results: 1}, args, ctxH, undH, via)
			}},
			{Name: "registration-validation", Quick: []int{1}, ShardDepth: -1, Run: c20Validation},
			{Name: "results-and-variables", Quick: []int{1}, ShardDepth: -1, Run: c20Results},
			{Name: "registry-histories", Quick: []int{1, 2, 3, 4}, Thorough: []int{1, 2, 3, 4, 5}, ShardDepth: 2, Run: func(c *explore.Chooser, x *explore.Ctx, n int) {
				menu := c20Menu()
				hist := make([]int, n)
				for i := range hist {
					hist[i] = c.Choose(len(menu))
				}
				c.Done()
				x.Describe(func() string { return c20DescribeHist(menu, hist) })
				obs, ok := c20RunHist(x.Violation, menu, hist)
				if !ok {
					return
				}
				x.Eval()
				x.Validated()
				x.Nontrivial()
				x.Outcome(obs)
			}},
		},
	})
}

// error types for the shape table: one that cannot be nil, one that can
type c20ErrStruct struct{}

func (c20ErrStruct) Error() string { return "struct error" }

type c20ErrPtr struct{}

func (*c20ErrPtr) Error() string { return "pointer error" }

// c20Validation: names and function shapes at registration time.
func c20Validation(c *explore.Chooser, x *explore.Ctx, _ int) {
	names := []struct {
		n     string
		valid bool
	}{{"f", true}, {"f1", true}, {"_x", true}, {"a_b", true}, {"Ünï", true}, {"", false}, {"a b", false}, {"a-b", false}, {"$a", false}, {"a.b", false}, {"a(", false}, {"é!", false}, {" f", false}, {"f\n", false}}
	type shape struct {
		desc  string
		fn    interface{}
		valid bool
	}
	shapes := []shape{
		{"nil", nil, false}, {"5", 5, false}, {`"s"`, "s", false}, {"struct{}", struct{}{}, false},
		{"func()", func() {}, false},
		{"func() int", func() int { return 1 }, true},
		{"func() (int, error)", func() (int, error) { return 1, nil }, true},
		{"func() (int, int)", func() (int, int) { return 1, 2 }, false},
		{"func() (int, error, error)", func() (int, error, error) { return 1, nil, nil }, false},
		{"func() (int, string)", func() (int, string) { return 1, "" }, false},
		{"func() error", func() error { return nil }, true},
		{"func(OptionalInt, int) int", func(jtypes.OptionalInt, int) int { return 1 }, false},
		{"func(int, OptionalInt) int", func(int, jtypes.OptionalInt) int { return 1 }, true},
		{"func(OptionalInt, OptionalString) int", func(jtypes.OptionalInt, jtypes.OptionalString) int { return 1 }, true},
		{"func(...OptionalInt) int", func(...jtypes.OptionalInt) int { return 1 }, false},
		{"func(int, ...OptionalInt) int", func(int, ...jtypes.OptionalInt) int { return 1 }, false},
		{"func(OptionalInt, ...int) int", func(jtypes.OptionalInt, ...int) int { return 1 }, false},
		{"func(...int) int", func(...int) int { return 1 }, true},
		{"(func() int)(nil)", (func() int)(nil), false},
		{"func() (int, c20ErrStruct)", func() (int, c20ErrStruct) { return 1, c20ErrStruct{} }, false},
		{"func() (int, *c20ErrStruct)", func() (int, *c20ErrPtr) { return 1, nil }, true},
	}
	which := c.Choose(3)
	switch which {
	case 0: // names x {extension, variable} x {package, Expr}
		ni := c.Choose(len(names))
		asVar := c.Bool()
		global := c.Bool()
		c.Done()
		n := names[ni]
		desc := fmt.Sprintf("register name %q asVar=%v packageLevel=%v", n.n, asVar, global)
		x.Describe(func() string { return desc })
		var err error
		callable := ""
		if x.Guard(desc, "", func() {
			jsonata.VerifResetGlobalRegistry()
			defer jsonata.VerifResetGlobalRegistry()
			e := jsonata.MustCompile("1")
			exts := map[string]jsonata.Extension{n.n: {Func: func() string { return "called" }}}
			vars := map[string]interface{}{n.n: "called"}
			switch {
			case asVar && global:
				err = jsonata.RegisterVars(vars)
			case asVar:
				err = e.RegisterVars(vars)
			case global:
				err = jsonata.RegisterExts(exts)
			default:
				err = e.RegisterExts(exts)
			}
			if n.valid && err == nil {
				prog := "$" + n.n
				if !asVar {
					prog += "()"
				}
				e2, cerr := jsonata.Compile(prog)
				if cerr != nil {
					callable = "compile error " + cerr.Error()
					return
				}
				if !global {
					if asVar {
						e2.RegisterVars(vars)
					} else {
						e2.RegisterExts(exts)
					}
				}
				v, eerr := e2.Eval(nil)
				callable = fmt.Sprintf("%v %v", v, eerr)
			}
		}) {
			return
		}
		x.Eval()
		x.Validated()
		x.Outcome(fmt.Sprintf("name valid=%v", n.valid))
		if n.valid {
			x.Nontrivial()
		}
		if (err == nil) != n.valid {
			x.Violation("value", "name:"+desc, explore.Detail{Program: desc, Expected: fmt.Sprintf("accepted=%v", n.valid), Observed: fmt.Sprintf("error=%v", err)})
		} else if n.valid && callable != "called <nil>" {
			x.Violation("value", "name-use:"+desc, explore.Detail{Program: desc, Expected: "$" + n.n + " usable after registration: called", Observed: callable})
		}
	case 1: // function shapes x {package, Expr}
		si := c.Choose(len(shapes))
		global := c.Bool()
		c.Done()
		s := shapes[si]
		desc := fmt.Sprintf("register shape %s packageLevel=%v", s.desc, global)
		x.Describe(func() string { return desc })
		var err error
		after := ""
		if x.Guard(desc, "", func() {
			jsonata.VerifResetGlobalRegistry()
			defer jsonata.VerifResetGlobalRegistry()
			e := jsonata.MustCompile(`$exists($g) ? "registered" : "absent"`)
			exts := map[string]jsonata.Extension{"g": {Func: s.fn}}
			if global {
				err = jsonata.RegisterExts(exts)
				e = jsonata.MustCompile(`$exists($g) ? "registered" : "absent"`)
			} else {
				err = e.RegisterExts(exts)
			}
			v, _ := e.Eval(nil)
			after = fmt.Sprint(v)
		}) {
			return
		}
		x.Eval()
		x.Validated()
		x.Outcome(fmt.Sprintf("shape valid=%v", s.valid))
		want := "absent"
		if s.valid {
			want = "registered"
			x.Nontrivial()
		}
		if (err == nil) != s.valid || after != want {
			x.Violation("value", "shape:"+desc, explore.Detail{Program: desc, Expected: fmt.Sprintf("accepted=%v, $g %s", s.valid, want), Observed: fmt.Sprintf("error=%v, $g %s", err, after)})
		}
	default: // a batch with one invalid member registers nothing usable under the invalid name
		ni := c.Choose(len(names))
		c.Done()
		n := names[ni]
		if n.valid {
			return
		}
		desc := fmt.Sprintf("batch {ok, %q}", n.n)
		x.Describe(func() string { return desc })
		var err error
		if x.Guard(desc, "", func() {
			e := jsonata.MustCompile("1")
			err = e.RegisterExts(map[string]jsonata.Extension{"ok": {Func: func() int { return 1 }}, n.n: {Func: func() int { return 1 }}})
		}) {
			return
		}
		x.Eval()
		x.Validated()
		x.Outcome("batch rejected")
		if err == nil {
			x.Violation("value", "batch:"+desc, explore.Detail{Program: desc, Expected: "error", Observed: "accepted"})
		}
	}
}

// c20Results: return values of every kind become the result; registered variables are readable.
func c20Results(c *explore.Chooser, x *explore.Ctx, _ int) {
	type rv struct {
		desc string
		fn   interface{}
		val  interface{}
		want string
	}
	vals := []rv{
		{"float64 2.5", func() float64 { return 2.5 }, 2.5, "2.5"},
		{"int 7", func() int { return 7 }, 7, "7"},
		{"uint8 3", func() uint8 { return 3 }, uint8(3), "3"},
		{"string", func() string { return "s" }, "s", `"s"`},
		{"bool", func() bool { return true }, true, "true"},
		{"[]interface{}", func() []interface{} { return []interface{}{1.0, "a"} }, []interface{}{1.0, "a"}, `[1,"a"]`},
		{"map", func() map[string]interface{} { return map[string]interface{}{"k": 1.0} }, map[string]interface{}{"k": 1.0}, `{"k":1}`},
		{"[]string", func() []string { return []string{"a", "b"} }, []string{"a", "b"}, `["a","b"]`},
		{"[]int", func() []int { return []int{1, 2} }, []int{1, 2}, `[1,2]`},
		{"interface{} holding a string", func() interface{} { return "s" }, interface{}("s"), `"s"`},
	}
	wraps := []struct{ prefix, suffix string }{{"", ""}, {"[", "]"}, {`{"r": `, "}"}, {"$string(", ")"}, {"(", ")[0]"}}
	vi := c.Choose(len(vals))
	asVar := c.Bool()
	global := c.Bool()
	wi := c.Choose(len(wraps))
	c.Done()
	v := vals[vi]
	ref := "$r()"
	if asVar {
		ref = "$r"
	}
	prog := wraps[wi].prefix + ref + wraps[wi].suffix
	desc := fmt.Sprintf("%s as %s (packageLevel=%v): %s", v.desc, map[bool]string{true: "variable", false: "extension result"}[asVar], global, prog)
	x.Describe(func() string { return desc })
	var got interface{}
	var err, rerr error
	if x.Guard(desc, "", func() {
		jsonata.VerifResetGlobalRegistry()
		defer jsonata.VerifResetGlobalRegistry()
		var e *jsonata.Expr
		reg := func(exts func(map[string]jsonata.Extension) error, vars func(map[string]interface{}) error) {
			if asVar {
				rerr = vars(map[string]interface{}{"r": v.val})
			} else {
				rerr = exts(map[string]jsonata.Extension{"r": {Func: v.fn}})
			}
		}
		if global {
			reg(jsonata.RegisterExts, jsonata.RegisterVars)
			e = jsonata.MustCompile(prog)
		} else {
			e = jsonata.MustCompile(prog)
			reg(e.RegisterExts, e.RegisterVars)
		}
		if rerr == nil {
			got, err = e.Eval(nil)
		}
	}) {
		return
	}
	x.Eval()
	x.Validated()
	want := v.want
	switch wi {
	case 1:
		if !strings.HasPrefix(want, "[") {
			want = "[" + want + "]"
		} else {
			want = "[" + want + "]" // an array constructor keeps an array-valued item nested only for literal constructors; see below
		}
	case 2:
		want = `{"r":` + want + "}"
	case 3:
		if v.want == `"s"` {
			want = `"s"`
		} else {
			want = fmt.Sprintf("%q", v.want)
		}
	case 4:
		switch {
		case strings.HasPrefix(v.want, "["):
			want = strings.SplitN(strings.Trim(v.want, "[]"), ",", 2)[0]
		case strings.HasPrefix(v.want, "{"):
			want = v.want
		}
	}
	observed := ""
	switch {
	case rerr != nil:
		observed = "registration error " + rerr.Error()
	case err != nil:
		observed = "error " + err.Error()
	default:
		observed = impl.Render(impl.Normalize(got))
	}
	x.Outcome(observed)
	x.Nontrivial()
	if wi == 1 && strings.HasPrefix(v.want, "[") {
		// [$r] with an array-valued $r: the constructor flattens values of non-constructor items
		want = v.want
	}
	if observed != want {
		x.Violation("value", "result:"+desc, explore.Detail{Program: desc, Expected: want, Observed: observed})
	}
}

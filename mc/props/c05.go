package props

import (
	"bufio"
	"crypto/sha1"
	"fmt"
	"os"
	"os/exec"
	"path/filepath"
	"sort"
	"strconv"
	"strings"
	"sync"
	"time"

	jsonata "github.com/blues/jsonata-go"

	"verif/mc/explore"
	"verif/mc/impl"
)

// c05Entry is one pooled program; reg: compiled with Expr-level variables and extensions.
type c05Entry struct {
	src string
	reg bool
}

var c05Extra = []c05Entry{
	{`a.$substringBefore("z")`, false}, {`a.$substringBefore($$.b.c.$substringBefore("z"))`, false}, {`b.c.$pad(5,"-")`, false}, {`s.$length()`, false},
	{`a.$uppercase()`, false}, {`$pad(?, 2)(a)`, false}, {`$pad(?, 6)`, false}, {`n.$string()`, false}, {`s.$split(" ")`, false}, {`s.$contains("o")`, false},
	{`s.$replace("o","0",1)`, false}, {`s ~> $replace("o", "0", 1)`, false}, {`s ~> $substring(0, 3)`, false}, {`a ~> $substringBefore("z")`, false},
	{`4 ~> $power(2)`, false}, {`$sum(n) ~> $formatNumber("0.0")`, false}, {`1 ~> function($a,$b,$c,$d){[$a,$b,$c,$d]}(2,3,4)`, false},
	{`1 ~> function($a,$b,$c,$d,$e,$f){[$a,$b,$c,$d,$e,$f]}(2,3,4,5,6)`, false}, {`a ~> $uppercase ~> $lowercase`, false}, {`a ~> $uppercase() ~> $lowercase() ~> $length()`, false},
	{`/[a-z]/(a).next().next().match`, false}, {`$match(s, /o/).index`, false}, {`($f := function($n){$n <= 1 ? 1 : $n * $f($n-1)}; $f(5))`, false},
	{`$error(a)`, false}, {`o^(k).v`, false}, {`o^(>k).v`, false}, {`o{v: k}`, false}, {`$$ ~> |o|{"z": k}|`, false}, {`n[$ > 1]`, false},
	{`$map(n, function($v,$i){$v*$i})`, false}, {`$n := $n + 1`, true}, {`[$exists($seen), $seen := a]`, true}, {`($n := $n + 1; $n)`, true}, {`$twice($n)`, true},
	{`$greet(a)`, true}, {`a = "xAz" ? $big := n : $big`, true}, {`$q := s`, false}, {`[$exists($q), $q := a]`, false},
	{`$fromMillis(0, "[H01]:[m01]", "+0845")`, false}, {`$fromMillis(0, "[H01]:[m01]", "-0845")`, false}, {`$formatNumber(n[0], "#,##0.00")`, false},
	{`$toMillis($fromMillis(86400000))`, false}, {`$reverse(n)`, false}, {`$sort(n)`, false}, {`$distinct(n)`, false}, {`$append(n, n)`, false},
	// a variable bound inside one member value of a constructor and read by another: the outcome may not depend on
	// the order in which Go visits a map
	{`{"a": $x := 1, "b": $x}`, false}, {`($x := 0; {"a": $x := 1, "b": $x})`, false}, {`o{v: $y := k, "z": $y}`, false},
	// built-ins with optional arguments, called with and without them on data both forms accept
	{`$toMillis("2017-10-30T16:25:32+01:00")`, false}, {`$toMillis("30/10/2017", "[D01]/[M01]/[Y]")`, false}, {`$toMillis("2018-03-04")`, false},
	{`$toMillis("2018-03-04", "[Y]-[D01]-[M01]")`, false}, {`$fromMillis(1509377132000)`, false}, {`$fromMillis(1509377132000, "[Y]/[M01]")`, false},
	{`$round(n[0] / 3, 2)`, false}, {`$round(n[0] / 3)`, false}, {`$join(s.$split(" "))`, false}, {`$join(s.$split(" "), "-")`, false},
	{`$formatBase(n[0] + 7)`, false}, {`$formatBase(n[0] + 7, 2)`, false}, {`$substring(s, 1)`, false}, {`$substring(s, 1, 2)`, false},
	{`$string(o[0])`, false}, {`$string(o[0], true)`, false}, {`$formatNumber(n[0] / 3, "0.0", {"decimal-separator": ","})`, false}, {`$formatNumber(n[0] / 3, "0,0")`, false},
	// one picture under decimal formats that differ only in members a picture cache could leave out of its key
	{`$formatNumber(0 - n[0] / 8, "00%")`, false}, {`$formatNumber(0 - n[0] / 8, "00%", {"percent": "pc", "minus-sign": "~"})`, false},
	{`$formatNumber(n[0], "#0‰")`, false}, {`$formatNumber(n[0], "#0‰", {"per-mille": "pm"})`, false},
	{`$split(s, "o", 1)`, false}, {`$sort(n, function($l, $r){$l < $r})`, false}, {`$reduce(n, function($a, $b){$a + $b}, 100)`, false}, {`$reduce(n, function($a, $b){$a + $b})`, false},
}

var c05PoolOnce sync.Once
var c05PoolList []c05Entry

func c05Pool() []c05Entry {
	c05PoolOnce.Do(func() {
		seen := map[string]bool{}
		add := func(e c05Entry) {
			k := fmt.Sprint(e.reg, e.src)
			if seen[k] {
				return
			}
			if _, err := jsonata.Compile(e.src); err != nil {
				return
			}
			seen[k] = true
			c05PoolList = append(c05PoolList, e)
		}
		for _, e := range c05Extra {
			add(e)
		}
		for _, p := range corpus {
			add(c05Entry{p, false})
		}
	})
	return c05PoolList
}

// c05Core is the sub-pool used for the deepest histories: the programs that
// touch state which could be carried between evaluations.
func c05CoreSize() int { return len(c05Extra) }

var c05DocsOnce sync.Once
var c05DocsList []interface{}

func c05Docs() []interface{} {
	c05DocsOnce.Do(func() { c05DocsList = c05MakeDocs() })
	return c05DocsList
}

func c05MakeDocs() []interface{} {
	mk := func(a, c, s string, n []interface{}, k1, k2 float64) interface{} {
		return map[string]interface{}{"a": a, "b": map[string]interface{}{"c": c}, "s": s, "n": n,
			"o": []interface{}{map[string]interface{}{"k": k1, "v": "p"}, map[string]interface{}{"k": k2, "v": "q"}}}
	}
	docs := []interface{}{
		mk("xAz", "AzB", "hello world", []interface{}{3.0, 1.0, 2.0}, 2, 1),
		mk("yBz", "BzC", "good morning", []interface{}{5.0, 4.0, 4.0}, 1, 2),
		[]interface{}{mk("wCz", "CzD", "foo boo", []interface{}{1.0}, 3, 3), mk("vDz", "DzE", "o", []interface{}{2.0, 9.0}, 1, 0)},
		map[string]interface{}{},
	}
	for i := range docs {
		docs[i] = impl.Roomy(docs[i]) // arrays with spare capacity, as a JSON decoder produces them
	}
	return docs
}

func c05Compile(e c05Entry) *jsonata.Expr {
	ex := jsonata.MustCompile(e.src)
	if e.reg {
		ex.RegisterVars(map[string]interface{}{"n": 10.0, "other": "v"})
		ex.RegisterExts(map[string]jsonata.Extension{
			"twice": {Func: func(x float64) float64 { return 2 * x }},
			"greet": {Func: func(s string) string { return "hi " + s }},
		})
	}
	return ex
}

// frozen is what an evaluation must leave unchanged: the syntax tree and the printed form.
func c05Frozen(ex *jsonata.Expr) string {
	return c04FromAST(ex.VerifRoot()).canon() + "\x00" + ex.String() + "\x00" + strings.Join(ex.VerifRegistry(), ",")
}

// c05Observe evaluates and renders the outcome. Programs whose result order
// follows Go's map iteration order (wildcards, $keys, $each, $spread, $sift
// callbacks, $shuffle) are rendered as multisets: member order of objects is a
// sanctioned variation.
func c05Observe(ex *jsonata.Expr, doc interface{}, unordered bool) string {
	o := impl.EvalExpr(ex, doc)
	if unordered && o.Kind == impl.Value {
		o.Val = sortDeep(o.Val)
	}
	return o.Short()
}

func c05Unordered(src string) bool {
	for _, m := range []string{"*", "$keys", "$each", "$spread", "$shuffle", "$sift", "$merge"} {
		if strings.Contains(src, m) {
			return true
		}
	}
	return false
}

// sortDeep orders every array by the rendering of its members.
func sortDeep(v interface{}) interface{} {
	switch x := v.(type) {
	case []interface{}:
		out := make([]interface{}, len(x))
		for i, e := range x {
			out[i] = sortDeep(e)
		}
		sort.SliceStable(out, func(i, j int) bool { return impl.Render(out[i]) < impl.Render(out[j]) })
		return out
	case map[string]interface{}:
		out := make(map[string]interface{}, len(x))
		for k, e := range x {
			out[k] = sortDeep(e)
		}
		return out
	}
	return v
}

// ---- solo outcomes ---------------------------------------------------------

var c05Solo []string

func c05SoloPath(root string) string { return filepath.Join(root, ".work", "C05-solo.txt") }

func c05LoadSolo() {
	if c05Solo != nil {
		return
	}
	f, err := os.Open(c05SoloPath(verifRoot()))
	if err != nil {
		panic("c05: solo table missing: " + err.Error())
	}
	defer f.Close()
	sc := bufio.NewScanner(f)
	sc.Buffer(make([]byte, 1<<20), 1<<20)
	for sc.Scan() {
		c05Solo = append(c05Solo, sc.Text())
	}
	if len(c05Solo) != len(c05Pool())*len(c05Docs()) {
		panic(fmt.Sprintf("c05: solo table has %d entries, want %d", len(c05Solo), len(c05Pool())*len(c05Docs())))
	}
}

// c05Aux serves the child-process tasks: "solo:<lo>-<hi>" prints the outcome of
// op i evaluated as the first and only call... of a process per op is what the
// parent arranges (one process per op); "e3:<hist>:<from>" replays a history on
// the pooled expressions and then tries every further operation.
func c05Aux(args string) {
	pool, docs := c05Pool(), c05Docs()
	nd := len(docs)
	switch {
	case strings.HasPrefix(args, "solo:"):
		i, _ := strconv.Atoi(strings.TrimPrefix(args, "solo:"))
		ex := c05Compile(pool[i/nd])
		fmt.Println(strings.Replace(c05Observe(ex, docs[i%nd], c05Unordered(pool[i/nd].src)), "\n", "\\n", -1))
	case strings.HasPrefix(args, "e3:"):
		f := strings.SplitN(strings.TrimPrefix(args, "e3:"), ":", 2)
		var hist []int
		if f[0] != "" {
			for _, s := range strings.Split(f[0], ",") {
				k, _ := strconv.Atoi(s)
				hist = append(hist, k)
			}
		}
		from, _ := strconv.Atoi(f[1])
		exprs := make([]*jsonata.Expr, len(pool))
		for i, e := range pool {
			exprs[i] = c05Compile(e)
		}
		fp := func() (string, string) {
			h := sha1.New()
			hf := sha1.New()
			for _, ex := range exprs {
				fr := c05Frozen(ex)
				h.Write([]byte(fr))
				hf.Write([]byte(fr))
			}
			h.Write([]byte(strings.Join(jsonata.VerifBaseEnv(), "\n")))
			return fmt.Sprintf("%x", h.Sum(nil)), fmt.Sprintf("%x", hf.Sum(nil))
		}
		out := bufio.NewWriter(os.Stdout)
		defer out.Flush()
		f0, z0 := fp()
		fmt.Fprintf(out, "init %s %s\n", f0, z0)
		for _, op := range hist {
			c05Observe(exprs[op/nd], docs[op%nd], c05Unordered(pool[op/nd].src))
		}
		cur, _ := fp()
		fmt.Fprintf(out, "state %s\n", cur)
		for op := from; op < len(pool)*nd; op++ {
			o := c05Observe(exprs[op/nd], docs[op%nd], c05Unordered(pool[op/nd].src))
			a, z := fp()
			fmt.Fprintf(out, "op %d %s %s %s\n", op, a, z, strings.Replace(o, "\n", "\\n", -1))
			if a != cur {
				return // the state changed: the parent continues from a fresh process
			}
		}
	}
}

func c05Pre(env *explore.Env) error {
	pool, docs := c05Pool(), c05Docs()
	n := len(pool) * len(docs)
	res := make([]string, n)
	errs := make([]error, n)
	var wg sync.WaitGroup
	sem := make(chan struct{}, 16)
	for i := 0; i < n; i++ {
		wg.Add(1)
		sem <- struct{}{}
		go func(i int) {
			defer wg.Done()
			defer func() { <-sem }()
			out, err := exec.Command(env.Self, "-aux", "C05", "-auxargs", "solo:"+strconv.Itoa(i)).Output()
			if err != nil {
				// a crash of the solo run is itself an outcome
				res[i] = "crash " + firstLine(err.Error())
				if ee, ok := err.(*exec.ExitError); ok {
					res[i] = "crash " + firstLine(string(ee.Stderr))
				}
				return
			}
			res[i] = strings.TrimRight(string(out), "\n")
		}(i)
	}
	wg.Wait()
	for _, e := range errs {
		if e != nil {
			return e
		}
	}
	os.MkdirAll(filepath.Join(env.Root, ".work"), 0o755)
	return os.WriteFile(c05SoloPath(env.Root), []byte(strings.Join(res, "\n")+"\n"), 0o644)
}

func firstLine(s string) string {
	if i := strings.IndexByte(s, '\n'); i >= 0 {
		return s[:i]
	}
	return s
}

func c05Describe(ops []int) string {
	pool, nd := c05Pool(), len(c05Docs())
	var sb strings.Builder
	for i, op := range ops {
		if i > 0 {
			sb.WriteString(" ; ")
		}
		e := pool[op/nd]
		fmt.Fprintf(&sb, "Eval(%q%s, d%d)", e.src, map[bool]string{true: " +reg", false: ""}[e.reg], op%nd)
	}
	return sb.String()
}

// c05RunHistory evaluates a history on expressions compiled for it (one Expr
// per distinct program) and checks every step.
func c05RunHistory(x *explore.Ctx, ops []int, exprs map[int]*jsonata.Expr, frozen map[int]string) {
	pool, docs := c05Pool(), c05Docs()
	nd := len(docs)
	describe := func(k int) string { return c05Describe(ops[:k+1]) }
	x.Describe(func() string { return describe(len(ops) - 1) })
	nontrivial := false
	for k, op := range ops {
		pi := op / nd
		ex := exprs[pi]
		if ex == nil {
			ex = c05Compile(pool[pi])
			exprs[pi] = ex
			frozen[pi] = c05Frozen(ex)
		}
		var got string
		x.Eval()
		if x.Guard(describe(k), "", func() { got = c05Observe(ex, docs[op%nd], c05Unordered(pool[pi].src)) }) {
			continue
		}
		x.Validated()
		if got != c05Solo[op] {
			x.Violation("value", "history:"+describe(k), explore.Detail{Program: describe(k), Input: jsonText(docs[op%nd]),
				Expected: "the outcome of the last call when it is run alone in a fresh process: " + c05Solo[op], Observed: got})
		}
		if fr := c05Frozen(ex); fr != frozen[pi] {
			x.Violation("value", "frozen:"+describe(k), explore.Detail{Program: describe(k),
				Expected: "syntax tree, printed form and registry as after Compile: " + strings.Replace(frozen[pi], "\x00", " | ", -1),
				Observed: strings.Replace(fr, "\x00", " | ", -1)})
			frozen[pi] = fr
		}
		if strings.HasPrefix(got, "value") {
			nontrivial = true
		}
		if k == len(ops)-1 {
			x.Outcome(got)
		}
	}
	if nontrivial {
		x.Nontrivial()
	}
	x.Sample(func() string { return describe(len(ops) - 1) })
}

// pooled expressions shared by the e3-history phase within one process
var c05Pooled = map[int]*jsonata.Expr{}
var c05PooledFrozen = map[int]string{}

func c05E3(env *explore.Env, res *explore.Result) {
	pool, docs := c05Pool(), c05Docs()
	nOps := len(pool) * len(docs)
	c05Solo = nil
	c05LoadSolo()
	type state struct {
		hist []int
	}
	seen := map[string]*state{}
	var frontier []*state
	transitions, selfLoops := 0, 0
	maxDepth := 2
	if env.Tier == "thorough" {
		maxDepth = 3
	}
	capStates := 400
	phaseIx := -1
	p := explore.Lookup("C05")
	for i := range p.Phases {
		if p.Phases[i].Name == "e3-history" {
			phaseIx = i
		}
	}
	addViolation := func(hist []int, what, expected, observed string) {
		desc := c05Describe(hist)
		key := what + ":" + desc
		for _, v := range res.Violations {
			if v.Key == key {
				return
			}
		}
		res.Violations = append(res.Violations, &explore.Violation{Kind: "value", Key: key, Phase: "e3-history", PhaseIx: phaseIx, Size: len(hist),
			Choices: append([]int{}, hist...), Count: 1, NShards: 1, Detail: explore.Detail{Program: desc, Expected: expected, Observed: observed,
				Note: "explicit-state search: history replayed on the pooled expressions of one fresh process"}})
	}
	run := func(hist []int, from int) (lines []string, err error) {
		out, err := exec.Command(env.Self, "-aux", "C05", "-auxargs", "e3:"+joinI(hist)+":"+strconv.Itoa(from)).Output()
		return strings.Split(strings.TrimRight(string(out), "\n"), "\n"), err
	}
	expand := func(s *state) {
		from := 0
		for from < nOps {
			lines, err := run(s.hist, from)
			var cur, frozen0 string
			progressed := false
			for _, l := range lines {
				f := strings.SplitN(l, " ", 5)
				switch f[0] {
				case "init":
					frozen0 = f[2]
					if len(seen) == 0 {
						seen[f[1]] = s
					}
				case "state":
					cur = f[1]
				case "op":
					op, _ := strconv.Atoi(f[1])
					after, frozen, outcome := f[2], f[3], f[4]
					transitions++
					progressed = true
					h := append(append([]int{}, s.hist...), op)
					if outcome != c05Solo[op] {
						addViolation(h, "history", "the outcome of the last call when run alone: "+c05Solo[op], outcome)
					}
					if frozen != frozen0 {
						addViolation(h, "frozen", "every compiled expression's tree, printed form and registry unchanged", "changed after the last call")
					}
					if after == cur {
						selfLoops++
					} else if _, ok := seen[after]; !ok && len(seen) < capStates {
						ns := &state{hist: h}
						seen[after] = ns
						if len(h) < maxDepth {
							frontier = append(frontier, ns)
						}
					}
					from = op + 1
				}
			}
			if err != nil && !progressed {
				// the child died on op `from`: C09 territory, but the history is on record
				addViolation(append(append([]int{}, s.hist...), from), "crash", "Eval returns", "child process died: "+firstLine(err.Error()))
				from++
			}
			if !progressed && err == nil {
				break
			}
		}
	}
	init0 := &state{}
	frontier = append(frontier, init0)
	for len(frontier) > 0 {
		if time.Now().After(env.Deadline) {
			res.Exhaustive = false
			res.CapHit = "e3 search stopped at the time budget"
			break
		}
		if len(res.Violations) >= 25 {
			// enough counterexamples on record: do not spend the budget enumerating the rest of a broken state space
			res.Exhaustive = false
			res.CapHit = "e3 search stopped after 25 violations"
			break
		}
		s := frontier[0]
		frontier = frontier[1:]
		expand(s)
	}
	res.Extra["e3_states"] = len(seen)
	res.Extra["e3_transitions"] = transitions
	res.Extra["e3_self_loops"] = selfLoops
	res.Extra["e3_depth"] = maxDepth
	res.Extra["e3_menu"] = nOps
	if len(seen) >= capStates {
		res.Exhaustive = false
		res.CapHit = "e3 state cap reached"
	}
	res.Stats = append(res.Stats, &explore.PhaseStat{Phase: "e3-bfs", Size: maxDepth, Leaves: int64(len(seen)), Edges: int64(transitions), Validated: int64(transitions), Complete: true})
}

func joinI(a []int) string {
	s := make([]string, len(a))
	for i, v := range a {
		s[i] = strconv.Itoa(v)
	}
	return strings.Join(s, ",")
}

func init() {
	explore.Register(&explore.Prop{
		ID:        "C05",
		Title:     "Evaluation is repeatable and leaves the compiled expression unchanged",
		Technique: "exhaustive enumeration of all Eval histories up to a depth over a program pool (every step compared with its solo outcome from a fresh process) + explicit-state BFS on fingerprints of the real state (syntax trees, printed forms, registries, built-in function objects)",
		Rule: "a case is one history of Eval(program, document) calls on expressions compiled for that history; every step's outcome must equal the outcome of the same call " +
			"run alone in a fresh process and the expression's tree/printed form/registry must be unchanged; non-trivial when some step yields a value. " +
			"E3: breadth-first search over the same menu on pooled expressions, states identified by fingerprint",
		Assumptions: []string{
			"$random/$shuffle/$now/$millis only appear under observables that do not depend on them",
			"histories longer than 3 over the full pool are outside the bound (length 5 only for repetition/alternation shapes)",
			"a difference that shows only after other cases of the same worker is confirmed by re-running that worker's case sequence (deterministic)",
		},
		Pre:           c05Pre,
		Aux:           c05Aux,
		ContextReplay: true,
		Post:          c05E3,
		Phases: []explore.Phase{
			{Name: "histories", Quick: []int{1, 2}, Thorough: []int{1, 2}, Init: func(int) { c05LoadSolo() }, Run: func(c *explore.Chooser, x *explore.Ctx, L int) {
				n := len(c05Pool()) * len(c05Docs())
				ops := make([]int, L)
				for i := range ops {
					ops[i] = c.Choose(n)
				}
				c.Done()
				c05RunHistory(x, ops, map[int]*jsonata.Expr{}, map[int]string{})
			}},
			{Name: "histories-core3", Thorough: []int{3}, Init: func(int) { c05LoadSolo() }, Run: func(c *explore.Chooser, x *explore.Ctx, L int) {
				n := c05CoreSize() * len(c05Docs())
				ops := make([]int, L)
				for i := range ops {
					ops[i] = c.Choose(n)
				}
				c.Done()
				c05RunHistory(x, ops, map[int]*jsonata.Expr{}, map[int]string{})
			}},
			{Name: "repeat5", Quick: []int{5}, Init: func(int) { c05LoadSolo() }, Run: func(c *explore.Chooser, x *explore.Ctx, L int) {
				nd := len(c05Docs())
				p := c.Choose(len(c05Pool()))
				d1, d2 := c.Choose(nd), c.Choose(nd)
				c.Done()
				ops := make([]int, L)
				for i := range ops {
					d := d1
					if i%2 == 1 {
						d = d2
					}
					ops[i] = p*nd + d
				}
				c05RunHistory(x, ops, map[int]*jsonata.Expr{}, map[int]string{})
			}},
			{Name: "e3-history", Init: func(int) { c05LoadSolo() }, Run: func(c *explore.Chooser, x *explore.Ctx, L int) {
				// replay-only: a history found by the explicit-state search, on pooled expressions
				n := len(c05Pool()) * len(c05Docs())
				ops := make([]int, L)
				for i := range ops {
					ops[i] = c.Choose(n)
				}
				c.Done()
				pool := c05Pool()
				for i := range pool { // the search compiles the whole pool first
					if c05Pooled[i] == nil {
						c05Pooled[i] = c05Compile(pool[i])
						c05PooledFrozen[i] = c05Frozen(c05Pooled[i])
					}
				}
				c05RunHistory(x, ops, c05Pooled, c05PooledFrozen)
			}},
		},
	})
	_ = sort.Strings
}

// verifRoot is the root of the verification tree (worker processes inherit it from run.sh).
func verifRoot() string {
	if r := os.Getenv("VERIF_ROOT"); r != "" {
		return r
	}
	return "/verif"
}

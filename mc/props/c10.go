package props

import (
	"encoding/json"
	"strconv"
	"strings"

	jsonata "github.com/blues/jsonata-go"

	"verif/mc/explore"
	"verif/mc/impl"
)

func c10Random(prog string) bool {
	return strings.Contains(prog, "$random") || strings.Contains(prog, "$shuffle") || strings.Contains(prog, "$now") || strings.Contains(prog, "$millis")
}

// c10Check: the result of a successful Eval is JSON-representable and can be
// marshalled, and EvalBytes on the encoded input agrees with Eval.
func c10Check(x *explore.Ctx, prog string, input interface{}) {
	inText := jsonText(input)
	e, err := jsonata.Compile(prog)
	if err != nil {
		x.Outcome("compile error")
		return
	}
	var v interface{}
	var everr error
	x.Eval()
	x.Describe(func() string { return prog + " on " + inText })
	if x.Guard(prog, inText, func() { v, everr = e.Eval(input) }) {
		return
	}
	x.Validated()
	fail := func(what, expected, observed string) {
		x.Violation("value", what+":"+prog+"|"+inText, explore.Detail{Program: prog, Input: inText, Expected: expected, Observed: observed})
	}
	var evalJSON []byte
	if everr == nil {
		x.Nontrivial()
		norm := impl.Normalize(v)
		if what, bad := impl.HasAlien(norm); bad {
			fail("type", "a result built only from JSON-representable values", "result contains "+what+": "+impl.Render(norm))
		}
		if where, bad := c10NilContainer(v, "result"); bad {
			fail("nil-array", "an array or object without members that encodes as [] / {}", where+" is a nil Go slice or map: $type calls it an array/object, json.Marshal and $string write null")
		}
		b, merr := json.Marshal(v)
		if merr != nil {
			fail("marshal", "a result that can be marshalled", "json.Marshal: "+merr.Error())
		}
		evalJSON = b
		x.Outcome("value")
	} else if everr == jsonata.ErrUndefined {
		if v != nil {
			fail("undefined", "a nil result with ErrUndefined", "non-nil result with ErrUndefined")
		}
		x.Outcome("no value")
	} else {
		x.Outcome("error")
	}
	// EvalBytes on the JSON encoding of the same input
	inBytes, merr := json.Marshal(input)
	if merr != nil {
		return
	}
	var decoded interface{}
	if err := json.Unmarshal(inBytes, &decoded); err != nil {
		return
	}
	// Eval on the decoded input is the comparison point (the input given above
	// may hold Go values that do not survive encoding unchanged)
	var v2 interface{}
	var err2 error
	if x.Guard(prog, inText, func() { v2, err2 = e.Eval(decoded) }) {
		return
	}
	var out []byte
	var berr error
	if x.Guard(prog, inText, func() { out, berr = e.EvalBytes(inBytes) }) {
		return
	}
	x.Eval()
	if c10Random(prog) {
		return
	}
	switch {
	case err2 != nil && berr == nil:
		fail("evalbytes", "EvalBytes fails when Eval on the decoded input fails ("+err2.Error()+")", "EvalBytes returned "+string(out))
	case err2 == nil && berr != nil:
		if _, merr := json.Marshal(v2); merr == nil {
			fail("evalbytes", "EvalBytes succeeds when Eval on the decoded input succeeds", "EvalBytes error: "+berr.Error())
		}
	case err2 == nil && berr == nil:
		want, merr := json.Marshal(v2)
		if merr != nil {
			fail("evalbytes", "EvalBytes fails when the value cannot be encoded", "EvalBytes returned "+string(out))
			break
		}
		var a, b interface{}
		ea, eb := json.Unmarshal(want, &a), json.Unmarshal(out, &b)
		if c05Unordered(prog) {
			// results that follow Go's map iteration order are compared as multisets;
			// a scalar picked out of such a result may be any member
			_, aArr := a.([]interface{})
			_, bArr := b.([]interface{})
			if !aArr || !bArr {
				break
			}
			a, b = sortDeep(a), sortDeep(b)
		}
		if ea != nil || eb != nil || !impl.Equal(impl.Normalize(a), impl.Normalize(b)) {
			fail("evalbytes", "the JSON encoding of Eval's value: "+string(want), string(out))
		}
	}
	_ = evalJSON
}

// c10Bytes: EvalBytes rejects exactly the inputs that are not valid JSON.
func c10Bytes(x *explore.Ctx, prog string, data []byte) {
	e := jsonata.MustCompile(prog)
	var decoded interface{}
	jerr := json.Unmarshal(data, &decoded)
	var out []byte
	var berr error
	x.Eval()
	in := strconv.Quote(string(data))
	if x.Guard(prog, in, func() { out, berr = e.EvalBytes(data) }) {
		return
	}
	x.Validated()
	fail := func(expected, observed string) {
		x.Violation("value", "evalbytes-input:"+prog+"|"+in, explore.Detail{Program: prog, Input: in, Expected: expected, Observed: observed})
	}
	if jerr != nil {
		if berr == nil {
			fail("an error: the input is not valid JSON ("+jerr.Error()+")", "EvalBytes returned "+string(out))
		}
		x.Outcome("rejected")
		return
	}
	x.Nontrivial()
	v, everr := e.Eval(decoded)
	if (everr == nil) != (berr == nil) {
		fail("EvalBytes succeeds exactly when Eval on the decoded input succeeds (Eval: "+impl.Render(impl.Normalize(v))+" / "+errText(everr)+")", string(out)+" / "+errText(berr))
	}
	x.Outcome("accepted")
}

func errText(err error) string {
	if err == nil {
		return "nil error"
	}
	return err.Error()
}

var c10Wrappers = []string{"@", "[@]", `{"k": @}`, "function(){@}()", "$map([1], function($v){@})", "[@][0]", "(@)", `{"k": [@]}.k`, "$append([], @)", "@ ~> function($r){$r}"}

// c10NilContainer finds a typed nil slice or map inside a result.
func c10NilContainer(v interface{}, where string) (string, bool) {
	switch x := v.(type) {
	case []interface{}:
		if x == nil {
			return where, true
		}
		for i, e := range x {
			if w, bad := c10NilContainer(e, where+"["+itoa(i)+"]"); bad {
				return w, true
			}
		}
	case map[string]interface{}:
		if x == nil {
			return where, true
		}
		for k, e := range x {
			if w, bad := c10NilContainer(e, where+"."+k); bad {
				return w, true
			}
		}
	}
	return "", false
}

var c10EdgeNumbers = []string{"0", "-0", "1", "-1", "2", "-2", "10", "-10", "0.5", "3", "309", "1025", "1e308", "-1e308", "5e-324", "1e21", "-308", "308", "1.7e308", "-1.7e308", "1.7976931348623157e308"}

var c10NumShapes = []string{"$power(X, Y)", "X * Y", "X / Y", "X + Y", "X - Y", "X % Y", "$sum([X, Y])", "$average([X, Y])", "$max([X, Y])", "$min([X, Y])", "$sqrt(X)", "$abs(X)",
	"$floor(X)", "$ceil(X)", "-X", "$number(X)", "$string(X)", "$formatBase(X)", "[X..X]", "$power(X, Y) * Y", "$sum([X, X, Y])", "$reduce([X, Y], function($a,$b){$a*$b})",
	"$map([X], function($v){$v * Y})", "{\"r\": X * Y}", "$round(X)", "$formatNumber(X, \"0\")", "$round(X, Y)", "$round(X * Y, -1)", "$number($string(X))", "$number($formatNumber(X, \"0\"))",
	"$sum([X, Y, Y])", "$average([X, Y, Y, Y])", "X + Y + Y", "$toMillis($fromMillis(X))", "$abs(X) + $abs(Y)", "$floor(X / Y)", "$max([X * Y, 1])"}

func init() {
	nb := len(allBuiltins)
	inputs := chaosInputs
	explore.Register(&explore.Prop{
		ID:        "C10",
		Title:     "Results are JSON-representable; ErrUndefined iff no value; EvalBytes agrees",
		Technique: "exhaustive enumeration of bounded programs (type-chaotic built-in calls and node shapes, every corpus program in every result position, numeric edge products) with a type-walk/marshal oracle and an Eval-vs-EvalBytes differential oracle; all short and structured malformed input byte strings for EvalBytes",
		Rule: "a case is one program on one input; oracle: a nil error comes with a value made only of JSON kinds (functions allowed) that json.Marshal accepts, ErrUndefined comes with a nil result, " +
			"EvalBytes succeeds iff Eval on the decoded input does and returns the same value, and fails iff the bytes are not JSON; non-trivial when Eval yields a value",
		Assumptions: []string{
			"'ErrUndefined is reported only when the expression yields no value' is decided against the reference model by C01-C03/C12-C15; here only its shape (nil result) is checked",
			"programs using $random/$shuffle/$now/$millis are excluded from the Eval/EvalBytes equality",
		},
		Phases: []explore.Phase{
			{Name: "builtin-chaos", Quick: []int{0, 1, 2}, Thorough: []int{0, 1, 2, 3}, Run: func(c *explore.Chooser, x *explore.Ctx, arity int) {
				b := allBuiltins[c.Choose(nb)]
				args := make([]string, arity)
				vals := chaosValues
				if arity >= 3 {
					vals = chaosSmall
				}
				for i := range args {
					args[i] = vals[c.Choose(len(vals))]
				}
				in := inputs[c.Choose(2)]
				c.Done()
				if arity > b.maxArity+1 {
					return
				}
				c10Check(x, "$"+b.name+"("+strings.Join(args, ", ")+")", in)
			}},
			{Name: "node-chaos", Quick: []int{1}, Run: func(c *explore.Chooser, x *explore.Ctx, _ int) {
				shape := chaosNodeShapes[c.Choose(len(chaosNodeShapes))]
				v := chaosValues[c.Choose(len(chaosValues))]
				w, xx := "1", "1"
				if strings.Contains(shape, "w") {
					w = chaosValues[c.Choose(len(chaosValues))]
				}
				if fillShape(shape, "", "", "#") != shape {
					xx = chaosSmall[c.Choose(len(chaosSmall))]
				}
				in := inputs[c.Choose(2)]
				c.Done()
				c10Check(x, fillShape(shape, v, w, xx), in)
			}},
			{Name: "result-positions", Quick: []int{1}, ShardDepth: 1, Run: func(c *explore.Chooser, x *explore.Ctx, _ int) {
				progs := validCorpus()
				p := progs[c.Choose(len(progs))]
				w := c10Wrappers[c.Choose(len(c10Wrappers))]
				in := c.Choose(len(c05Docs()))
				c.Done()
				c10Check(x, strings.Replace(w, "@", p, -1), c05Docs()[in])
			}},
			{Name: "no-value-consumers", Quick: []int{1}, ShardDepth: 2, Run: func(c *explore.Chooser, x *explore.Ctx, _ int) {
				// ErrUndefined is reported exactly when the expression has no value: a sub-expression without a value
				// handed to something that maps "no value" to a value must give that value, in every calling form
				producers := []struct{ direct, fn, arg string }{
					{"nothing", "function($v){$v.zz}", "{}"},
					{"$max([])", "$max", "[]"},
					{`$lookup({}, "zz")`, `$lookup(?, "zz")`, "{}"},
					{"[][0]", "function($v){$v[0]}", "[]"},
					{`$substringBefore(nothing, "a")`, "function($v){$v.nothing ~> $uppercase}", "{}"},
					{"(function(){nothing})()", "function(){nothing}", "1"},
				}
				consumers := []struct{ call, fn, want string }{
					{"$exists(X)", "$exists", "false"},
					{"$count(X)", "$count", "0"},
					{"[X]", "function($v){[$v]}", "[]"},
					{`{"k": X}`, `function($v){{"k": $v}}`, "{}"},
					{"X = 1", "function($v){$v = 1}", "false"},
					{`$append(X, "t")`, `$append(?, "t")`, `"t"`},
					{`X & "s"`, `function($v){$v & "s"}`, `"s"`},
					{"$not($exists(X))", "($exists ~> $not)", "true"},
				}
				p := producers[c.Choose(len(producers))]
				k := consumers[c.Choose(len(consumers))]
				form := c.Choose(5)
				c.Done()
				var prog string
				switch form {
				case 0:
					prog = strings.Replace(k.call, "X", "("+p.direct+")", 1)
				case 1:
					prog = "(" + p.direct + ") ~> " + k.fn
				case 2: // composed function applied to the argument
					prog = "(" + p.fn + " ~> " + k.fn + ")(" + p.arg + ")"
				case 3: // the same through variables
					prog = "($f := " + p.fn + "; $g := " + k.fn + "; $h := $f ~> $g; $h(" + p.arg + "))"
				default:
					prog = "(" + p.arg + " ~> " + p.fn + ") ~> " + k.fn
				}
				if (form == 1 || form == 4) && strings.HasPrefix(k.fn, "$append(?") {
					// v ~> $append(?, "t") with a missing v: the chain hands over "no value" as the placeholder's argument
				}
				got := impl.Run(prog, nil)
				x.Eval()
				x.Validated()
				x.Describe(func() string { return prog })
				if got.Kind != impl.Value || impl.Render(got.Val) != k.want {
					x.Violation("value", "value:"+prog, explore.Detail{Program: prog, Expected: "value " + k.want + " (the consumer maps no value to a value)", Observed: got.String()})
				}
				x.Nontrivial()
				x.Outcome(got.Short())
				c10Check(x, prog, nil)
			}},
			{Name: "self-referential-updates", Quick: []int{1}, ShardDepth: -1, Run: func(c *explore.Chooser, x *explore.Ctx, _ int) {
				// an update that refers to the object being updated must not make the result contain itself
				progs := []string{`$ ~> |$|{"self": $}|`, `$ ~> |**|{"me": $}|`, `$ ~> |a|{"up": [$, 1]}|`, `$ ~> |$|{"self": {"in": $}}|`, `$ ~> |$|{"self": $}| ~> |$|{"again": $}|`,
					`$count($string($ ~> |$|{"self": $}|)) > 0`}
				docs := []interface{}{map[string]interface{}{"a": map[string]interface{}{"b": 1.0}}, map[string]interface{}{"a": []interface{}{map[string]interface{}{"b": 1.0}, map[string]interface{}{"b": 2.0}}}}
				p := progs[c.Choose(len(progs))]
				d := docs[c.Choose(len(docs))]
				c.Done()
				c10Check(x, p, d)
			}},
			{Name: "input-nulls", Quick: []int{1}, ShardDepth: -1, Run: func(c *explore.Chooser, x *explore.Ctx, _ int) {
				// a JSON null selected from the input is a value (null), not "no value"
				cases := []struct {
					prog  string
					input interface{}
					want  string
				}{
					{`$`, nil, "null"},
					{`n`, map[string]interface{}{"n": nil}, "null"},
					{`a[0]`, map[string]interface{}{"a": []interface{}{nil}}, "null"},
					{`[n]`, map[string]interface{}{"n": nil}, "[null]"},
					{`$.a`, []interface{}{map[string]interface{}{"a": nil}}, "null"},
					{`nn`, map[string]interface{}{"nn": []interface{}{nil, nil}}, "[null,null]"},
					{`$lookup($, "n")`, map[string]interface{}{"n": nil}, "null"},
					{`{"k": n}`, map[string]interface{}{"n": nil}, `{"k":null}`},
				}
				k := cases[c.Choose(len(cases))]
				c.Done()
				got := impl.Run(k.prog, k.input)
				x.Eval()
				x.Validated()
				in := jsonText(k.input)
				x.Describe(func() string { return k.prog + " on " + in })
				if got.Kind != impl.Value || impl.Render(got.Val) != k.want {
					x.Violation("value", "input-null:"+k.prog+"|"+in, explore.Detail{Program: k.prog, Input: in, Expected: "value " + k.want + " (null is a value; ErrUndefined is reported only when there is no value)", Observed: got.String()})
				}
				x.Nontrivial()
				x.Outcome(got.Short())
			}},
			{Name: "numeric-edges", Quick: []int{1}, Run: func(c *explore.Chooser, x *explore.Ctx, _ int) {
				shape := c10NumShapes[c.Choose(len(c10NumShapes))]
				a := c10EdgeNumbers[c.Choose(len(c10EdgeNumbers))]
				b := c10EdgeNumbers[c.Choose(len(c10EdgeNumbers))]
				w := c10Wrappers[c.Choose(4)]
				c.Done()
				if strings.Contains(shape, "..") && (strings.Contains(a, "e") || a == "309" || a == "1025") {
					return
				}
				prog := strings.NewReplacer("X", "("+a+")", "Y", "("+b+")").Replace(shape)
				c10Check(x, strings.Replace(w, "@", prog, -1), nil)
			}},
			{Name: "evalbytes-malformed-short", Quick: []int{0, 1, 2, 3}, Thorough: []int{0, 1, 2, 3, 4}, Run: func(c *explore.Chooser, x *explore.Ctx, size int) {
				units := []byte{'{', '}', '[', ']', '"', ':', ',', '1', 'a', 0, 0xff, ' ', 'n', '-', '.', 'e', '\\', 't'}
				data := make([]byte, size)
				for i := range data {
					data[i] = units[c.Choose(len(units))]
				}
				prog := []string{"$", "a", "$count($)"}[c.Choose(3)]
				c.Done()
				c10Bytes(x, prog, data)
			}},
			{Name: "evalbytes-malformed-structured", Quick: []int{1}, Run: func(c *explore.Chooser, x *explore.Ctx, _ int) {
				docs := []string{`{"a":1}`, `[1,2]`, `1`, `"s"`, `null`, `true`, `{}`, `[]`, `{"a":[1,{"b":null}]}`, `1.5e3`, `-0`}
				junk := []string{"", " ", "\n", "x", "}", "]", "1", "{}", ",", "\x00", "\xff", `"`, " xyz", `{"a":2}`, "//c", "\t "}
				d := docs[c.Choose(len(docs))]
				pre := junk[c.Choose(len(junk))]
				post := junk[c.Choose(len(junk))]
				cut := c.Choose(3) // also truncated documents
				prog := []string{"$", "a"}[c.Choose(2)]
				c.Done()
				text := d
				if cut > 0 && len(d) > cut {
					text = d[:len(d)-cut]
				}
				c10Bytes(x, prog, []byte(pre+text+post))
				x.Sample(func() string { return prog + " on bytes " + strconv.Quote(pre+text+post) })
			}},
		},
	})
}

package props

import (
	"strings"

	"verif/mc/explore"
	"verif/mc/impl"
)

type builtin struct {
	name     string
	maxArity int
}

var allBuiltins = []builtin{
	{"string", 1}, {"length", 1}, {"substring", 3}, {"substringBefore", 2}, {"substringAfter", 2}, {"uppercase", 1}, {"lowercase", 1},
	{"pad", 3}, {"trim", 1}, {"contains", 2}, {"split", 3}, {"join", 2}, {"match", 3}, {"replace", 4}, {"formatNumber", 3}, {"formatBase", 2},
	{"base64encode", 1}, {"base64decode", 1}, {"decodeUrl", 1}, {"decodeUrlComponent", 1}, {"encodeUrl", 1}, {"encodeUrlComponent", 1},
	{"number", 1}, {"abs", 1}, {"floor", 1}, {"ceil", 1}, {"round", 2}, {"power", 2}, {"sqrt", 1}, {"random", 0},
	{"sum", 1}, {"max", 1}, {"min", 1}, {"average", 1}, {"boolean", 1}, {"not", 1}, {"exists", 1},
	{"distinct", 1}, {"count", 1}, {"reverse", 1}, {"sort", 2}, {"shuffle", 1}, {"zip", 3}, {"append", 2},
	{"map", 2}, {"filter", 2}, {"reduce", 3}, {"single", 2}, {"each", 2}, {"sift", 2}, {"keys", 1}, {"lookup", 2}, {"spread", 1}, {"merge", 1},
	{"fromMillis", 3}, {"toMillis", 3}, {"type", 1}, {"error", 1}, {"millis", 0}, {"now", 2},
}

// chaosValues: every kind, including functions as data, nested arrays, empty
// containers, null and missing. Numbers stay small: size-like arguments
// (widths, repeats, ranges) must keep termination expected.
var chaosValues = []string{
	`1`, `0`, `-1`, `0.5`, `2`, `"a"`, `""`, `"1"`, `true`, `null`, `nothing`, `[]`, `[1,2]`, `["a","b"]`, `[[1]]`, `[[],[1,[2]]]`, `{}`, `{"a":1}`,
	`$sum`, `function($x){$x}`, `function($x,$y){$x}`, `function($a,$b,$c,$d){$a}`, `$replace`, `$pad(?,2)`, `/a/`, `/a/("a")`, `$$`, `a`, `a.b`,
	`[{"b":1},{"a":1},{"a":"x"}]`, // members of different kinds behind an element that lacks the member (sort keys, aggregates)
}

// chaosSmall is the sub-alphabet for wide products.
var chaosSmall = []string{`1`, `"a"`, `true`, `null`, `nothing`, `[1,2]`, `[[1]]`, `{"a":1}`, `$sum`, `function($x){$x}`, `/a/`, `$$`}

var chaosInputs = []interface{}{
	map[string]interface{}{"a": []interface{}{[]interface{}{map[string]interface{}{"b": 1.0}}}, "s": "x"},
	[]interface{}{[]interface{}{1.0}, []interface{}{}, map[string]interface{}{"a": nil}},
	nil,
}

// node shapes with value holes v, w, x
var chaosNodeShapes = []string{
	"v + w", "v - w", "v * w", "v / w", "v % w", "v = w", "v != w", "v < w", "v <= w", "v > w", "v >= w", "v in w", "v and w", "v or w", "v & w",
	"-(v)", "[v..w]", "v ? w : x", "v ? w", "(v)[w]", "(v)[w][x]", "(v).(w)", "(v).(w).(x)", "(v).*", "(v).**", "**.(v)", "*.(v)", "(v).$", "(v)[]",
	"(v)^(w)", "(v)^(>w, x)", "(v){w: x}", "(v).{w: x}", "{w: x}", "[v, w, x]", "v ~> w", "v ~> w ~> x", "$$ ~> |v|w|", "$$ ~> |v|w, x|", "|v|w,x|(x)",
	"(v)(w)", "(v)(w, x)", "(v)(?, w)(x)", "($q := v; $q(w))", "(v).$string()", "(v).$keys()", "$keys(v)", "(v).[w]", "(v).{\"k\": w}",
	"$map(v, w)", "$filter(v, w)", "$reduce(v, w, x)", "$sort(v, w)", "$each(v, w)", "$sift(v, w)", "$single(v, w)",
	"(v).params", "(v).paramNames[0]", "(v).fn", "(v).name", "(v).context", "(v).body", "(v).env", "(v).args", "(v).re", "(v).callables", "(v).groups", "(v).next",
	"$string((v).paramNames)", "(v).params ~> |$|{}|", "(v).paramNames^($)", "$reverse((v).params)", "(v).params = (v).params", "(v).callableName", "(v).typed",
	"function($p)<n+>{$p}(v, w)", "function($p, $q)<s-n?>{[$p,$q]}(v)", "λ($p)<a<n>>{$p}(v)", "λ($p, $q)<(ns)f?>{$p}(v, w)",
}

func fillShape(shape string, v, w, xx string) string {
	var sb strings.Builder
	for i := 0; i < len(shape); i++ {
		ch := shape[i]
		isHole := (ch == 'v' || ch == 'w' || ch == 'x') &&
			(i == 0 || !isWordByte(shape[i-1])) && (i+1 == len(shape) || !isWordByte(shape[i+1]))
		if !isHole {
			sb.WriteByte(ch)
			continue
		}
		switch ch {
		case 'v':
			sb.WriteString(v)
		case 'w':
			sb.WriteString(w)
		default:
			sb.WriteString(xx)
		}
	}
	return sb.String()
}

func isWordByte(b byte) bool {
	return b == '$' || b == '_' || b == '"' || (b >= 'a' && b <= 'z') || (b >= 'A' && b <= 'Z') || (b >= '0' && b <= '9')
}

// c09Run evaluates one program on every chaos input: any outcome is fine, a
// panic or a hang is not.
func c09Run(x *explore.Ctx, prog string) {
	nontrivial := false
	for i, in := range chaosInputs {
		inText := jsonText(in)
		var out impl.Outcome
		x.Eval()
		x.Describe(func() string { return prog + "   on input " + inText })
		if x.Guard(prog, inText, func() { out = impl.Run(prog, in) }) {
			continue
		}
		x.Validated()
		if i == 0 {
			x.Outcome(out.Short())
		}
		if out.Kind == impl.Value {
			nontrivial = true
		}
		if out.Kind == impl.CompileError {
			break
		}
	}
	if nontrivial {
		x.Nontrivial()
	}
	x.Sample(func() string { return prog })
}

func init() {
	nb := len(allBuiltins)
	explore.Register(&explore.Prop{
		ID:        "C09",
		Title:     "Eval is total: outcomes are returned, never thrown, even for ill-typed programs",
		Technique: "exhaustive enumeration of type-chaotic programs (every built-in x every arity x value alphabet, every node shape, depth-2 compositions, typed lambdas) in watchdogged worker processes",
		Rule: "each (function or node shape, argument tuple) is one program, evaluated on 3 inputs; oracle: Eval returns (any outcome) without panic or hang; " +
			"non-trivial when some input yields a value",
		Assumptions: []string{
			"numbers in the chaos alphabet are small so that widths, repeats and ranges keep termination expected (the statement bounds them)",
			"depth-3 compositions and unboundedly recursive user functions are outside the bound",
		},
		Phases: []explore.Phase{
			{Name: "builtin-chaos", Quick: []int{0, 1, 2}, Thorough: []int{0, 1, 2, 3}, Run: func(c *explore.Chooser, x *explore.Ctx, arity int) {
				b := allBuiltins[c.Choose(nb)]
				args := make([]string, arity)
				for i := range args {
					args[i] = chaosValues[c.Choose(len(chaosValues))]
				}
				form := c.Choose(3) // direct call, under a path context, through ~>
				c.Done()
				if arity > b.maxArity+1 {
					return
				}
				call := "$" + b.name + "(" + strings.Join(args, ", ") + ")"
				switch form {
				case 1:
					call = "(" + chaosValues[(arity*7+len(b.name))%len(chaosValues)] + ")." + call
				case 2:
					if arity == 0 {
						return
					}
					call = args[0] + " ~> $" + b.name + "(" + strings.Join(args[1:], ", ") + ")"
				}
				c09Run(x, call)
			}},
			{Name: "builtin-chaos-wide", Quick: []int{3}, Thorough: []int{3, 4}, Run: func(c *explore.Chooser, x *explore.Ctx, arity int) {
				b := allBuiltins[c.Choose(nb)]
				args := make([]string, arity)
				for i := range args {
					args[i] = chaosSmall[c.Choose(len(chaosSmall))]
				}
				c.Done()
				if arity > b.maxArity+1 {
					return
				}
				c09Run(x, "$"+b.name+"("+strings.Join(args, ", ")+")")
			}},
			{Name: "node-chaos", Quick: []int{1}, Run: func(c *explore.Chooser, x *explore.Ctx, _ int) {
				shape := chaosNodeShapes[c.Choose(len(chaosNodeShapes))]
				v := chaosValues[c.Choose(len(chaosValues))]
				w, xx := "1", "1"
				if strings.Contains(shape, "w") {
					w = chaosValues[c.Choose(len(chaosValues))]
				}
				if strings.Contains(shape, "x") && fillShape(shape, "", "", "#") != shape {
					xx = chaosSmall[c.Choose(len(chaosSmall))]
				}
				c.Done()
				c09Run(x, fillShape(shape, v, w, xx))
			}},
			{Name: "depth2", Quick: []int{1}, Thorough: []int{1, 2}, Run: func(c *explore.Chooser, x *explore.Ctx, size int) {
				f := allBuiltins[c.Choose(nb)]
				g := allBuiltins[c.Choose(nb)]
				vals := chaosSmall
				if size == 2 {
					vals = chaosValues
				}
				v := vals[c.Choose(len(vals))]
				w := vals[c.Choose(len(vals))]
				form := c.Choose(5)
				c.Done()
				if g.name == "millis" || g.name == "now" {
					return // the clock is not a bounded size-like argument
				}
				inner := "$" + g.name + "(" + v + ")"
				var prog string
				switch form {
				case 0:
					prog = "$" + f.name + "(" + inner + ")"
				case 1:
					prog = "$" + f.name + "(" + inner + ", " + w + ")"
				case 2:
					prog = "$" + f.name + "(" + w + ", " + inner + ")"
				case 3:
					prog = "$" + g.name + "(" + v + ", " + w + ").*.$" + f.name + "()"
				default:
					prog = "$" + g.name + "(" + v + ", " + w + ").**[$" + f.name + "($)]"
				}
				c09Run(x, prog)
			}},
			{Name: "typed-lambda", Quick: []int{1}, Thorough: []int{1, 2}, Run: func(c *explore.Chooser, x *explore.Ctx, nParams int) {
				types := []string{"n", "s", "b", "l", "a", "o", "f", "j", "x", "(ns)", "a<n>", "a<s>", "f<n:n>"}
				opts := []string{"", "?", "+", "-"}
				sig := ""
				params := []string{"$p", "$q"}[:nParams]
				for i := 0; i < nParams; i++ {
					sig += types[c.Choose(len(types))] + opts[c.Choose(len(opts))]
				}
				nArgs := c.Choose(4)
				args := make([]string, nArgs)
				for i := range args {
					args[i] = chaosSmall[c.Choose(len(chaosSmall))]
				}
				ctxForm := c.Bool()
				c.Done()
				prog := "function(" + strings.Join(params, ", ") + ")<" + sig + ">{[$p, " + params[nParams-1] + "]}(" + strings.Join(args, ", ") + ")"
				if ctxForm {
					prog = `"ctx".` + prog
				}
				c09Run(x, prog)
			}},
			{Name: "functions-as-callbacks", Quick: []int{1}, Run: func(c *explore.Chooser, x *explore.Ctx, _ int) {
				// every built-in, lambdas of every arity 0..5, partials and chains as the function argument of every
				// higher-order form, over arrays/objects of several kinds
				lambdas := []string{"function(){1}", "function($a){$a}", "function($a,$b){$b}", "function($a,$b,$c){$c}", "function($a,$b,$c,$d){$d}",
					"function($a,$b,$c,$d,$e){$e}", "$substring(?, 1)", "$replace(?, ?, ?, ?)", "($string ~> $length)", "|$|{}|", "/a/"}
				k := c.Choose(nb + len(lambdas))
				fn := ""
				if k < nb {
					fn = "$" + allBuiltins[k].name
				} else {
					fn = lambdas[k-nb]
				}
				forms := []string{"$map(A, F)", "$filter(A, F)", "$single(A, F)", "$reduce(A, F)", "$reduce(A, F, 1)", "$sort(A, F)", "$each(O, F)", "$sift(O, F)",
					"A ~> F", "A.F($)", "$replace(\"aba\", /a/, F)", "$replace(\"aba\", F, \"-\")", "$split(\"aba\", F)", "$match(\"aba\", F)", "$contains(\"aba\", F)"}
				form := forms[c.Choose(len(forms))]
				arrs := []string{`[1, 2, 3]`, `["a", "b"]`, `[]`, `[[1], {"a": 1}]`, `5`}
				a := arrs[c.Choose(len(arrs))]
				c.Done()
				prog := strings.NewReplacer("A", a, "F", fn, "O", `{"a": 1, "b": "x"}`).Replace(form)
				c09Run(x, prog)
			}},
			{Name: "date-picture-chaos", Quick: []int{0, 1, 2, 3}, Thorough: []int{0, 1, 2, 3, 4}, Run: func(c *explore.Chooser, x *explore.Ctx, size int) {
				units := []string{"[", "]", "Y", "M01", "D1o", "d", "F", "W", "H", "h", "P", "m", "s", "f001", "Z", "z", "C", "E", " ", ",", "-", "*", "x", "1", "Nn", "[[", "]]", "\n"}
				var sb strings.Builder
				for i := 0; i < size; i++ {
					sb.WriteString(units[c.Choose(len(units))])
				}
				form := c.Choose(4)
				c.Done()
				pic := strings.Replace(sb.String(), "\n", "\\n", -1)
				var prog string
				switch form {
				case 0:
					prog = `$fromMillis(1521801216617, "` + pic + `")`
				case 1:
					prog = `$fromMillis(-1, "[` + pic + `]", "-0530")`
				case 2:
					prog = `$toMillis("2018-03-23", "` + pic + `")`
				default:
					prog = `$fromMillis(0, "[Y]", "` + pic + `")`
				}
				c09Run(x, prog)
			}},
			{Name: "date-component-widths", Quick: []int{1}, Run: func(c *explore.Chooser, x *explore.Ctx, _ int) {
				// every component x presentation x width modifier with widths at the edges of the integer range
				comps := []string{"Y", "M", "D", "d", "F", "W", "w", "H", "h", "P", "m", "s", "f", "Z", "z", "C", "E"}
				pres := []string{"", "1", "01", "0001", "Nn", "N", "n", "1o", "I", "i", "w", "Ww", "a", "A"}
				nums := []string{"0", "1", "2", "18", "19", "20", "64", "1000", "2147483648", "9000000000000000000", "9223372036854775807", "9223372036854775808", "99999999999999999999"}
				comp := comps[c.Choose(len(comps))]
				pr := pres[c.Choose(len(pres))]
				form := c.Choose(5)
				n1 := nums[c.Choose(len(nums))]
				n2 := "1"
				if form == 2 {
					n2 = nums[c.Choose(len(nums))]
				}
				fn := c.Choose(2)
				c.Done()
				var mod string
				switch form {
				case 0:
					mod = "," + n1
				case 1:
					mod = ",*-" + n1
				case 2:
					mod = "," + n1 + "-" + n2
				case 3:
					mod = "," + n1 + "-*"
				default:
					mod = ",*"
				}
				// huge minimum widths ask for that much padding: sizes of paddings are bounded by the statement
				if (form == 0 || form == 2 || form == 3) && len(n1) > 4 {
					return
				}
				pic := "[" + comp + pr + mod + "]"
				if fn == 0 {
					c09Run(x, `$fromMillis(1521801216617, "`+pic+`")`)
				} else {
					c09Run(x, `$toMillis("2018", "`+pic+`")`)
				}
			}},
			{Name: "numeric-edges", Quick: []int{1}, Run: func(c *explore.Chooser, x *explore.Ctx, _ int) {
				// numbers at the edges of the integer and double ranges in every numeric parameter that is not a size
				// (padding widths, range bounds and repetition counts are bounded by the statement)
				edges := []string{"0", "-1", "0.5", "-0.5", "2147483648", "-2147483649", "9007199254740992", "9007199254740993", "-9007199254740992", "1e16", "1e18", "9.3e18", "-9.3e18", "1e19", "1e300", "-1e300", "5e-324", "1.7e308", "-1.7e308"}
				shapes := []string{
					`$substring("héllo", E)`, `$substring("héllo", E, F)`, `$substring("héllo", 1, E)`, `$split("a,b,c", ",", E)`, `$replace("aaa", "a", "b", E)`,
					`$replace("aaa", /a/, "b", E)`, `$match("aaa", /a/, E)`, `$round(E)`, `$round(E, F)`, `$round(2.5, E)`, `$power(E, F)`, `$power(2, E)`, `$sqrt(E)`, `$abs(E)`,
					`$floor(E)`, `$ceil(E)`, `$formatBase(E)`, `$formatBase(E, 2)`, `$formatBase(10, E)`, `$formatNumber(E, "0.00")`, `$formatNumber(E, "#,##0.###e0")`,
					`$formatNumber(E, "0%")`, `$fromMillis(E)`, `$fromMillis(E, "[Y]-[M]-[D] [H]:[m]:[s].[f]")`, `$fromMillis(E, (), "+0100")`, `$string(E)`, `$number("E")`,
					`[1,2,3][E]`, `[1,2,3][[E, F]]`, `$sum([E, F])`, `$average([E, F])`, `$max([E, F])`, `E + F`, `E * F`, `E / F`, `E % F`, `E & ""`, `-(E)`,
					`$zip([1,2],[3,4])[E]`, `$reduce([1,2,3], function($a,$b){$a+$b}, E)`, `$map([E, F], $string)`, `$sort([E, F, 1])`, `$toMillis($fromMillis(E))`,
					`[E..E]`, `$count([E..E + 2])`, `$count([E - 2..E])`, `[E..E].$string()`,
					`$formatInteger(E, "w")`, `$pad("x", 3, $string(E))`, `$join([$string(E), $string(F)], ",")`, `$boolean(E)`, `$not(E)`, `$type(E)`, `$count([E])`,
				}
				shape := shapes[c.Choose(len(shapes))]
				e := edges[c.Choose(len(edges))]
				f := "1"
				if strings.Contains(shape, "F") {
					f = edges[c.Choose(len(edges))]
				}
				c.Done()
				prog := strings.NewReplacer("E", e, "F", f).Replace(shape)
				c09Run(x, prog)
			}},
			{Name: "number-picture-chaos", Quick: []int{0, 1, 2, 3, 4}, Thorough: []int{0, 1, 2, 3, 4, 5}, Run: func(c *explore.Chooser, x *explore.Ctx, size int) {
				units := []string{"0", "#", ",", ".", ";", "%", "‰", "e", "x", "-", " ", "9"}
				var sb strings.Builder
				for i := 0; i < size; i++ {
					sb.WriteString(units[c.Choose(len(units))])
				}
				v := []string{"0", "-1", "1234.5678", "0.00012", "1e21", "1e-7"}[c.Choose(6)]
				c.Done()
				c09Run(x, `$formatNumber(`+v+`, "`+sb.String()+`")`)
			}},
			{Name: "string-arg-chaos", Quick: []int{1}, Run: func(c *explore.Chooser, x *explore.Ctx, _ int) {
				// type-directed: string functions with the edge strings/numbers of their grammars
				strs := []string{`""`, `"a"`, `"é😀"`, `"a b"`, `"%"`, `"%zz"`, `"$1$0"`, `"$"`, `"$99999999999999999999"`, `"====" `, `"YQ"`, `"\\"`, `"\ud83d\ude00"`}
				nums := []string{"0", "1", "-1", "2", "-8", "8", "0.5", "-1.5", "36", "37", "1.4"}
				shapes := []string{
					"$substring(S, N, M)", "$pad(S, N, T)", "$split(S, T, N)", "$replace(S, T, S, N)", "$replace(S, /(a)|(é)/, T, N)", "$match(S, /a*|(é)/, N)",
					"$split(S, /a*/, N)", "$join([S, T], S)", "$formatBase(N, M)", "$round(N, M)", "$power(N, M)", "$base64decode(S)", "$decodeUrl(S)",
					"$decodeUrlComponent(S)", "$encodeUrl(S)", "$number(S)", "$formatNumber(N, S)", "$formatNumber(N, \"#,##0.00\", {S: T})", "$toMillis(S)",
					"$toMillis(S, T)", "$fromMillis(N, S, T)", "$contains(S, T)", "$substringBefore(S, T)", "$substringAfter(S, T)", "$lookup({S: N}, T)",
					"$replace(S, function($s){{\"match\": T, \"start\": N, \"end\": M, \"groups\": [], \"next\": function(){nothing}}}, T)",
					"$split(S, function($s){{\"match\": T, \"start\": N, \"end\": M, \"groups\": [S], \"next\": function(){{\"match\": T, \"start\": M, \"end\": N, \"groups\": [], \"next\": function(){nothing}}}}})",
				}
				shape := shapes[c.Choose(len(shapes))]
				S := strs[c.Choose(len(strs))]
				T := strs[c.Choose(len(strs))]
				N := nums[c.Choose(len(nums))]
				M := nums[c.Choose(len(nums))]
				c.Done()
				r := strings.NewReplacer("S", S, "T", T, "N", N, "M", M)
				c09Run(x, r.Replace(shape))
			}},
			{Name: "corpus", Quick: []int{1}, ShardDepth: 1, Run: func(c *explore.Chooser, x *explore.Ctx, _ int) {
				progs := validCorpus()
				p := progs[c.Choose(len(progs))]
				wrap := c.Choose(len(c08Wrappers))
				c.Done()
				c09Run(x, strings.Replace(c08Wrappers[wrap], "@", p, -1))
			}},
		},
	})
}

package props

// corpus is a list of valid programs covering every node type and every
// built-in family; used by C08 (single-edit neighbourhood), C05 and C09.
var corpus = []string{
	`a`, `a.b`, `a.b.c`, "`a b`.c", `$`, `$$`, `$.a`, `$$.a.b`, `*`, `**`, `a.*`, `a.**.b`, `**.b`, `a[0]`, `a[-1]`, `a[b=1]`,
	`a[b>1 and c="x"]`, `a[[0,1]]`, `a[0][0]`, `a.b[0].c`, `(a.b)[0]`, `a[]`, `a.b[]`, `a[].b`, `$x[0]`, `[1,2,3][1]`,
	`a.(b)`, `a.(b.c)`, `a.[b]`, `a.[b,c]`, `a.{"k":b}`, `a.$count($)`, `a.$string(b)`, `a.b{c:d}`, `a{b:c}`, `a{"x":$sum(b)}`,
	`1`, `-1`, `0.5`, `1e3`, `1E-3`, `"s"`, `'s'`, `"é"`, `"😀"`, `"a\nb"`, `true`, `false`, `null`,
	`[]`, `[1]`, `[1,[2]]`, `[1..3]`, `[1..3, 5..6]`, `{}`, `{"a":1}`, `{"a":1,"b":[2]}`, `{"a":{"b":null}}`,
	`1+2`, `1-2`, `2*3`, `6/3`, `7%3`, `-a`, `-(1+2)`, `1+2*3`, `(1+2)*3`, `a & "x"`, `"a" & 1 & true`,
	`1=1`, `1!=2`, `1<2`, `1<=2`, `2>1`, `2>=1`, `1 in [1,2]`, `"a" in a`, `true and false`, `true or false`, `a and b or c`,
	`a ? 1 : 2`, `a ? 1`, `a ? b ? 1 : 2 : 3`, `$x := 1`, `($x := 1; $x + 1)`, `($x := 1; $y := $x; $y)`, `(1; 2; 3)`, `()`,
	`function($x){$x}`, `function($x,$y){$x+$y}(1,2)`, `λ($x){$x}(1)`, `function($x)<n:n>{$x}(1)`, `function($x,$y)<s-n?:s>{$x}`,
	`function($x)<a<n>>{$x}([1])`, `function($x)<(ns)+>{$x}(1,"a")`, `($f := function($n){$n <= 1 ? 1 : $n * $f($n-1)}; $f(4))`,
	`$sum([1,2])`, `$count(a)`, `$string(1)`, `$string()`, `$length("abc")`, `$substring("abc",1)`, `$substring("abc",1,1)`,
	`$substringBefore("a-b","-")`, `$substringAfter("a-b","-")`, `$uppercase("a")`, `$lowercase("A")`, `$trim(" a ")`, `$pad("a",3)`,
	`$pad("a",-3,"x")`, `$contains("abc","b")`, `$contains("abc",/b/)`, `$split("a,b",",")`, `$split("a,b",",",1)`, `$join(["a","b"],",")`,
	`$match("abab",/a(b)/)`, `$match("abab",/a/,1)`, `$replace("abab","a","x")`, `$replace("abab",/a(b)/,"$1$0")`,
	`$replace("abab",/a/,function($m){$m.match & "!"},1)`, `/a/("xa")`, `/a/i`, `/a\/b/m`, `$number("1")`, `$abs(-1)`, `$floor(1.5)`,
	`$ceil(1.5)`, `$round(1.25,1)`, `$power(2,3)`, `$sqrt(4)`, `$formatNumber(1234.5,"#,##0.00")`, `$formatNumber(0.5,"0%")`,
	`$formatBase(10,2)`, `$base64encode("a")`, `$base64decode("YQ==")`, `$encodeUrlComponent("a b")`, `$decodeUrlComponent("a%20b")`,
	`$encodeUrl("http://a/b c")`, `$decodeUrl("http://a/b%20c")`, `$max([1,2])`, `$min([1,2])`, `$average([1,2])`,
	`$boolean(a)`, `$not(a)`, `$exists(a)`, `$append([1],[2])`, `$reverse([1,2])`, `$sort([2,1])`,
	`$sort(a,function($x,$y){$x.k>$y.k})`, `$count($shuffle([1,2,3]))`, `$zip([1,2],[3,4])`, `$distinct([1,1,2])`,
	`$map([1,2],function($v,$i,$a){$v+$i})`, `$filter([1,2],function($v){$v>1})`, `$reduce([1,2,3],function($a,$b){$a+$b})`,
	`$reduce([1,2,3],function($a,$b){$a+$b},10)`, `$single([1,2],function($v){$v>1})`, `$each({"a":1},function($v,$k){$k})`,
	`$sift({"a":1,"b":2},function($v){$v>1})`, `$keys({"a":1})`, `$lookup({"a":1},"a")`, `$spread({"a":1,"b":2})`,
	`$merge([{"a":1},{"b":2}])`, `$type(a)`, `$error("x")`, `$fromMillis(0)`, `$fromMillis(0,"[Y0001]-[M01]-[D01]")`,
	`$fromMillis(0,"[H01]:[m01]","+0100")`, `$toMillis("1970-01-01T00:00:00.000Z")`, `$toMillis("1970","[Y]")`,
	`$millis() > 0`, `$now() != ""`, `$random() < 1`,
	`a ~> $sum`, `a ~> $sum()`, `4 ~> $power(2)`, `a ~> $map(function($v){$v})`, `$sum ~> $string`, `($f := $string ~> $length; $f(12))`,
	`$pad(?, 3)`, `$pad(?, 3)("a")`, `$substring(?, 1, ?)("abc", 1)`, `$ ~> |a|{"z":1}|`, `$ ~> |a|{"z":1},"b"|`, `$ ~> |a.b|{},["c","d"]|`,
	`|a|{"z":1}|`, `$ ~> |a|{}, b.c|`, `$ ~> |a|{}, b[0]|`, `$ ~> |a|{}, b[]|`, `$ ~> |a.b[0]|{"z":c.d}|`, `$ ~> |a[]|b.c, d.e|`, `a^(b)`, `a^(>b)`, `a^(<b, >c)`, `a^(b).c`, `a.b^($)`, `a[b=1]^(c)[0]`, `a.$substringBefore("z")`, `a.$pad(3)`,
	`and`, `or.in`, `{"and": or}`, `a.and`, `in[in]`, `$x.y`, `$x[0].y`, `a /* no comments in this port */`, `a
.b`, "a\t+\tb", `  a  `,
}

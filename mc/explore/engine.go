package explore

import (
	"bufio"
	"encoding/json"
	"fmt"
	"os"
	"runtime"
	"runtime/debug"
	"sort"
	"strconv"
	"strings"
	"sync"
	"sync/atomic"
	"syscall"
	"time"
)

// A Phase is one bounded grammar of cases together with its oracle. Run makes
// all its decisions through the Chooser, calls c.Done(), executes the case on
// the real implementation and reports through x.
type Phase struct {
	Name     string
	Quick    []int // size parameters explored in the quick tier (nil: phase absent)
	Thorough []int // size parameters explored in the thorough tier
	// ShardDepth: number of leading choice points whose values pick the owning
	// worker (default 2). 0 < 0 means "run on worker 0 only".
	ShardDepth int
	Run        func(c *Chooser, x *Ctx, size int)
	// Init, if set, runs once per worker before the first case of the phase.
	Init func(size int)
}

// A Prop is one property with its phases.
type Prop struct {
	ID          string
	Title       string
	Rule        string // how cases are enumerated and what counts as non-trivial
	Technique   string
	Assumptions []string
	Phases      []Phase
	// Custom, when set, replaces the E1 driver for this property (E2/E3 engines).
	Custom func(env *Env) *Result
	// Post, when set, runs in the parent after the E1 phases and may add to the result.
	Post func(env *Env, r *Result)
	// Pre, when set, runs in the parent before the workers start.
	Pre func(env *Env) error
	// Aux, when set, serves auxiliary child-process tasks (check -aux <prop> -auxargs <args>).
	Aux func(args string)
	// ContextReplay: a violation that does not reproduce alone is re-run together
	// with every case that preceded it in its worker (process-global state).
	ContextReplay bool
	// Replay, when set, replays a recorded violation of a Custom engine; returns the exit code.
	Replay func(env *Env, v *Violation) int
	// Budget returns the wall-clock budget in seconds for a tier (nil: defaults).
	Budget func(tier string) int
	// HangCPU overrides the per-case CPU-seconds limit (default 10).
	HangCPU float64
}

var registry = map[string]*Prop{}

// Register adds a property.
func Register(p *Prop) { registry[p.ID] = p }

// Lookup finds a property.
func Lookup(id string) *Prop { return registry[id] }

// IDs lists registered ids.
func IDs() []string {
	var ids []string
	for id := range registry {
		ids = append(ids, id)
	}
	sort.Strings(ids)
	return ids
}

// Detail describes one failing case.
type Detail struct {
	Program  string `json:"program,omitempty"`
	Input    string `json:"input,omitempty"`
	Expected string `json:"expected,omitempty"`
	Observed string `json:"observed,omitempty"`
	Note     string `json:"note,omitempty"`
}

// Violation is one reported failure.
type Violation struct {
	Kind    string `json:"kind"` // value | panic | hang | crash | other
	Key     string `json:"key"`
	Phase   string `json:"phase"`
	PhaseIx int    `json:"phase_ix"`
	Size    int    `json:"size"`
	Choices []int  `json:"choices"`
	Detail  Detail `json:"detail"`
	Count   int    `json:"count,omitempty"`
	// where the case ran (needed to re-run the same process history)
	Shard   int  `json:"shard"`
	NShards int  `json:"nshards"`
	Seed    int  `json:"seed"`
	Context bool `json:"context_dependent,omitempty"` // reproduces only after the cases that preceded it in its worker
}

// PhaseStat is the coverage of one (phase,size).
type PhaseStat struct {
	Phase      string `json:"phase"`
	Size       int    `json:"size"`
	Leaves     int64  `json:"leaves"`
	Edges      int64  `json:"edges"`
	Validated  int64  `json:"validated"`
	Nontrivial int64  `json:"nontrivial"`
	Evals      int64  `json:"evaluations"`
	Complete   bool   `json:"complete"`
}

// Ctx is what a case body reports through.
type Ctx struct {
	w       *worker
	phaseIx int
	phase   string
	size    int
	c       *Chooser
	st      *PhaseStat
}

// Violation reports a failing case. key identifies the finding (used for
// de-duplication and for matching the known-findings file).
func (x *Ctx) Violation(kind, key string, d Detail) {
	x.w.violation(x, kind, key, d)
}

// Validated counts one comparison of a model prediction with the implementation.
func (x *Ctx) Validated() { x.st.Validated++ }

// Eval counts one evaluation on the implementation.
func (x *Ctx) Eval() { x.st.Evals++ }

// Nontrivial counts the current case as non-trivial (call at most once per case).
func (x *Ctx) Nontrivial() { x.st.Nontrivial++ }

// Outcome records an observed outcome string (distinct ones are counted, capped).
func (x *Ctx) Outcome(s string) {
	if len(x.w.outcomes) < 5000 {
		if len(s) > 120 {
			s = s[:120]
		}
		x.w.outcomes[s] = struct{}{}
	}
}

// Sample offers a rendered case as a sample (a few are kept).
func (x *Ctx) Sample(f func() string) {
	n := x.st.Leaves
	if n < 2 || (n&(n-1)) == 0 && len(x.w.samples) < 24 {
		x.w.samples = append(x.w.samples, x.phase+": "+f())
	}
}

// Describe announces the case about to be executed. On replay it is printed
// (and flushed) before the case runs, so that a case that hangs or kills the
// worker can still be rendered.
func (x *Ctx) Describe(f func() string) {
	if x.w.replay {
		x.w.emit(map[string]interface{}{"t": "desc", "msg": f()})
		x.w.flush()
	}
}

// Thorough reports whether the thorough tier is running.
func (x *Ctx) Thorough() bool { return x.w.tier == "thorough" }

// Replaying is true when a single recorded case is being replayed.
func (x *Ctx) Replaying() bool { return x.w.replay }

// Logf prints a line on replay only.
func (x *Ctx) Logf(format string, a ...interface{}) {
	if x.w.replay {
		x.w.emit(map[string]interface{}{"t": "log", "msg": fmt.Sprintf(format, a...)})
	}
}

type worker struct {
	prop     *Prop
	tier     string
	idx, n   int
	seed     int
	deadline time.Time
	replay   bool

	mu  sync.Mutex
	out *bufio.Writer

	perKey   map[string]int
	outcomes map[string]struct{}
	samples  []string

	// published trail for watchdog / crash recovery
	region  []byte
	seq     uint64
	runs    uint64 // every run started, skipped ones included: progress for the watchdog
	inCase  int32
	curPh   int
	curSize int
	stats   []*PhaseStat
}

func (w *worker) emit(v interface{}) {
	b, _ := json.Marshal(v)
	w.mu.Lock()
	w.out.Write(b)
	w.out.WriteByte('\n')
	w.mu.Unlock()
}

func (w *worker) flush() {
	w.mu.Lock()
	w.out.Flush()
	w.mu.Unlock()
}

func (w *worker) violation(x *Ctx, kind, key string, d Detail) {
	w.perKey[key]++
	if w.perKey[key] > 1 && !w.replay {
		return
	}
	trunc := func(s string) string {
		if len(s) > 2000 {
			return s[:2000] + "…"
		}
		return s
	}
	d.Program, d.Input, d.Expected, d.Observed = trunc(d.Program), trunc(d.Input), trunc(d.Expected), trunc(d.Observed)
	v := Violation{Kind: kind, Key: key, Phase: x.phase, PhaseIx: x.phaseIx, Size: x.size, Choices: x.c.Choices(), Detail: d,
		Shard: w.idx, NShards: w.n, Seed: w.seed}
	w.emit(map[string]interface{}{"t": "viol", "v": v})
}

const regionSize = 8192

func (w *worker) publish(trail []CP) {
	atomic.AddUint64(&w.seq, 1)
	if w.region == nil {
		return
	}
	r := w.region
	n := len(trail)
	if 16+8*n > len(r) {
		n = (len(r) - 16) / 8
	}
	put := func(off int, v uint32) {
		r[off], r[off+1], r[off+2], r[off+3] = byte(v), byte(v>>8), byte(v>>16), byte(v>>24)
	}
	put(0, 0) // invalidate
	put(4, uint32(w.curPh))
	put(8, uint32(w.curSize))
	for i := 0; i < n; i++ {
		put(16+8*i, uint32(trail[i].N))
		put(20+8*i, uint32(trail[i].K))
	}
	put(12, uint32(n))
	put(0, 1)
}

func readRegion(r []byte) (ph, size int, trail []CP, ok bool) {
	get := func(off int) int {
		return int(uint32(r[off]) | uint32(r[off+1])<<8 | uint32(r[off+2])<<16 | uint32(r[off+3])<<24)
	}
	if len(r) < 16 || get(0) != 1 {
		return 0, 0, nil, false
	}
	n := get(12)
	if 16+8*n > len(r) {
		return 0, 0, nil, false
	}
	trail = make([]CP, n)
	for i := range trail {
		trail[i] = CP{get(16 + 8*i), get(20 + 8*i)}
	}
	return get(4), get(8), trail, true
}

func cpuSeconds() float64 {
	var ru syscall.Rusage
	syscall.Getrusage(syscall.RUSAGE_SELF, &ru)
	return float64(ru.Utime.Sec) + float64(ru.Utime.Usec)/1e6 + float64(ru.Stime.Sec) + float64(ru.Stime.Usec)/1e6
}

func (w *worker) watchdog(limit float64) {
	var lastSeq, lastRuns uint64
	var stuck float64
	lastCPU := cpuSeconds()
	for {
		time.Sleep(200 * time.Millisecond)
		s := atomic.LoadUint64(&w.seq)
		r := atomic.LoadUint64(&w.runs)
		now := cpuSeconds()
		if s == lastSeq && r == lastRuns && atomic.LoadInt32(&w.inCase) == 1 {
			stuck += now - lastCPU
		} else {
			stuck = 0
		}
		lastSeq, lastRuns, lastCPU = s, r, now
		if stuck >= limit {
			ph, size, trail, ok := readRegion(w.region)
			buf := make([]byte, 1<<16)
			buf = buf[:runtime.Stack(buf, true)]
			if len(buf) > 6000 {
				buf = buf[:6000]
			}
			w.emit(map[string]interface{}{"t": "hang", "ok": ok, "stack": string(buf), "ph": ph, "size": size, "trail": trailString(trail), "cpu": stuck, "stats": w.stats, "perkey": w.perKey})
			w.flush()
			os.Exit(3)
		}
	}
}

func trailString(t []CP) string {
	var sb strings.Builder
	for i, p := range t {
		if i > 0 {
			sb.WriteByte(',')
		}
		sb.WriteString(strconv.Itoa(p.N))
		sb.WriteByte('.')
		sb.WriteString(strconv.Itoa(p.K))
	}
	return sb.String()
}

func parseTrail(s string) []CP {
	if s == "" {
		return nil
	}
	var t []CP
	for _, f := range strings.Split(s, ",") {
		nk := strings.SplitN(f, ".", 2)
		n, _ := strconv.Atoi(nk[0])
		k, _ := strconv.Atoi(nk[1])
		t = append(t, CP{n, k})
	}
	return t
}

func sizesFor(p *Phase, tier string) []int {
	if tier == "thorough" {
		if p.Thorough != nil {
			return p.Thorough
		}
		return p.Quick
	}
	return p.Quick
}

// repoFrame extracts the innermost /repo function from a panic stack.
func repoFrame(stack string) string {
	lines := strings.Split(stack, "\n")
	seenPanic := false
	for _, l := range lines {
		if strings.HasPrefix(l, "panic(") {
			seenPanic = true
			continue
		}
		if !seenPanic || strings.HasPrefix(l, "\t") {
			continue
		}
		if strings.HasPrefix(l, "github.com/blues/jsonata-go") {
			if i := strings.LastIndex(l, "("); i > 0 {
				l = l[:i]
			}
			return strings.TrimPrefix(l, "github.com/blues/jsonata-go")
		}
	}
	return ""
}

// PanicClass normalises a panic message so that one root cause is one key.
func PanicClass(msg string) string {
	var sb strings.Builder
	for _, r := range msg {
		if r >= '0' && r <= '9' {
			if n := sb.Len(); n > 0 && sb.String()[n-1] == '#' {
				continue
			}
			sb.WriteByte('#')
			continue
		}
		sb.WriteRune(r)
	}
	s := sb.String()
	if len(s) > 100 {
		s = s[:100]
	}
	return s
}

// runOne executes one run of a phase. leaf=false when the run was skipped
// because it belongs to another shard.
func (w *worker) runOne(ph *Phase, x *Ctx, c *Chooser) (leaf bool) {
	defer func() {
		atomic.StoreInt32(&w.inCase, 0)
		r := recover()
		if r == nil {
			return
		}
		if _, ok := r.(skipSignal); ok {
			leaf = false
			return
		}
		if ge, ok := r.(*GeneratorError); ok {
			w.emit(map[string]interface{}{"t": "fatal", "msg": "generator error: " + ge.Msg, "choices": c.Choices()})
			w.flush()
			os.Exit(2)
		}
		stack := string(debug.Stack())
		msg := fmt.Sprint(r)
		site := repoFrame(stack)
		if site == "" {
			w.emit(map[string]interface{}{"t": "fatal", "msg": "harness panic: " + msg, "stack": stack, "choices": c.Choices(), "phase": ph.Name})
			w.flush()
			os.Exit(2)
		}
		leaf = true
		x.st.Leaves++
		w.violation(x, "panic", "panic:"+site+":"+PanicClass(msg), Detail{Observed: "panic: " + msg, Note: "top /repo frame " + site + "; case rendered on replay"})
	}()
	atomic.AddUint64(&w.runs, 1)
	atomic.StoreInt32(&w.inCase, 1)
	ph.Run(c, x, x.size)
	if !c.done {
		panic(&GeneratorError{"case body returned without calling Done()"})
	}
	x.st.Leaves++
	return true
}

// WorkerMain runs in a worker subprocess.
func WorkerMain(propID, tier string, idx, n, seed int, deadlineUnix int64, after, replay, regionPath, until string) {
	debug.SetMaxStack(256 << 20)
	var lim syscall.Rlimit
	lim.Cur, lim.Max = 12<<30, 12<<30
	syscall.Setrlimit(syscall.RLIMIT_AS, &lim)
	runtime.GOMAXPROCS(1)

	p := Lookup(propID)
	if p == nil {
		fmt.Fprintln(os.Stderr, "unknown property", propID)
		os.Exit(2)
	}
	w := &worker{prop: p, tier: tier, idx: idx, n: n, seed: seed, deadline: time.Unix(deadlineUnix, 0),
		out: bufio.NewWriterSize(os.Stdout, 1<<16), perKey: map[string]int{}, outcomes: map[string]struct{}{}}
	currentWorker = w
	if regionPath != "" {
		f, err := os.OpenFile(regionPath, os.O_RDWR|os.O_CREATE, 0o644)
		if err == nil {
			f.Truncate(regionSize)
			if m, err := syscall.Mmap(int(f.Fd()), 0, regionSize, syscall.PROT_READ|syscall.PROT_WRITE, syscall.MAP_SHARED); err == nil {
				w.region = m
				for i := range m {
					m[i] = 0
				}
			}
			f.Close()
		}
	}
	limit := p.HangCPU
	if limit == 0 {
		limit = 20
	}
	if replay != "" {
		limit *= 2
	}
	if f, err := strconv.ParseFloat(os.Getenv("VERIF_HANG_FACTOR"), 64); err == nil && f > 0 {
		limit *= f
	}
	go w.watchdog(limit)

	if replay != "" {
		w.replay = true
		f := strings.SplitN(replay, ":", 3)
		phIx, _ := strconv.Atoi(f[0])
		size, _ := strconv.Atoi(f[1])
		var choices []int
		if f[2] != "" {
			for _, s := range strings.Split(f[2], ",") {
				k, _ := strconv.Atoi(s)
				choices = append(choices, k)
			}
		}
		ph := &p.Phases[phIx]
		if ph.Init != nil {
			ph.Init(size)
		}
		st := &PhaseStat{Phase: ph.Name, Size: size}
		c := &Chooser{prefix: choices, pub: w.publish}
		w.curPh, w.curSize = phIx, size
		x := &Ctx{w: w, phaseIx: phIx, phase: ph.Name, size: size, c: c, st: st}
		w.runOne(ph, x, c)
		w.emit(map[string]interface{}{"t": "done", "stats": []*PhaseStat{st}})
		w.flush()
		return
	}

	// resume point
	resumePh, resumeSize := -1, 0
	var resumeTrail []CP
	if after != "" {
		f := strings.SplitN(after, ":", 3)
		resumePh, _ = strconv.Atoi(f[0])
		resumeSize, _ = strconv.Atoi(f[1])
		resumeTrail = parseTrail(f[2])
	}

	timedOut := false
	resuming := resumePh >= 0
	for phIx := range p.Phases {
		ph := &p.Phases[phIx]
		for _, size := range sizesFor(ph, tier) {
			var prefix []int
			if resuming {
				if phIx != resumePh || size != resumeSize {
					continue
				}
				resuming = false
				var ok bool
				prefix, ok = next(resumeTrail)
				st := &PhaseStat{Phase: ph.Name, Size: size}
				w.stats = append(w.stats, st)
				if !ok {
					st.Complete = true
					continue
				}
			} else {
				w.stats = append(w.stats, &PhaseStat{Phase: ph.Name, Size: size})
			}
			st := w.stats[len(w.stats)-1]
			if timedOut {
				continue
			}
			sd := ph.ShardDepth
			if sd == 0 {
				sd = 2
			}
			if sd < 0 && idx != 0 {
				st.Complete = true
				continue
			}
			if ph.Init != nil {
				ph.Init(size)
			}
			w.curPh, w.curSize = phIx, size
			runs := 0
			for {
				c := &Chooser{prefix: prefix, shardDepth: sd, nShards: n, shard: (idx + seed) % n, edges: &st.Edges, pub: w.publish, countTop: idx == 0}
				if sd < 0 {
					c.nShards = 1
				}
				x := &Ctx{w: w, phaseIx: phIx, phase: ph.Name, size: size, c: c, st: st}
				w.runOne(ph, x, c)
				if until != "" && until == fmt.Sprintf("%d:%d:%s", phIx, size, joinInts(c.Choices())) {
					w.emit(map[string]interface{}{"t": "done", "stats": w.stats})
					w.flush()
					return
				}
				var ok bool
				prefix, ok = next(c.trail)
				if !ok {
					st.Complete = true
					break
				}
				runs++
				if runs&1023 == 0 && time.Now().After(w.deadline) {
					timedOut = true
					break
				}
			}
		}
	}
	outs := make([]string, 0, len(w.outcomes))
	for o := range w.outcomes {
		outs = append(outs, o)
	}
	w.emit(map[string]interface{}{"t": "done", "stats": w.stats, "outcomes": outs, "samples": w.samples, "perkey": w.perKey})
	w.flush()
}

var currentWorker *worker

// Fatal reports a harness error from anywhere in a worker and exits with
// status 2 (never read as a violation).
func Fatal(msg string) {
	if w := currentWorker; w != nil {
		w.emit(map[string]interface{}{"t": "fatal", "msg": msg})
		w.flush()
	} else {
		fmt.Fprintln(os.Stderr, "fatal:", msg)
	}
	os.Exit(2)
}

// Guard runs f and turns a panic raised below /repo code into a violation that
// carries the rendered case. Harness panics are re-raised.
func (x *Ctx) Guard(program, input string, f func()) (panicked bool) {
	defer func() {
		r := recover()
		if r == nil {
			return
		}
		switch r.(type) {
		case skipSignal, *GeneratorError:
			panic(r)
		}
		stack := string(debug.Stack())
		site := repoFrame(stack)
		if site == "" {
			panic(r)
		}
		msg := fmt.Sprint(r)
		panicked = true
		x.Violation("panic", "panic:"+site+":"+PanicClass(msg), Detail{Program: program, Input: input,
			Expected: "a value, 'no value' or an error through the return values", Observed: "panic: " + msg, Note: "top /repo frame " + site})
	}()
	f()
	return false
}

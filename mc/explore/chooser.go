// Package explore is engine E1: a stateless, exhaustive explorer of choice
// trees. A case generator asks a Chooser for every decision it takes; the
// explorer enumerates *all* choice sequences by depth-first search, exactly as
// a stateless model checker enumerates schedules: run with a prefix, take
// choice 0 afterwards, record the arity of every choice point met, then
// backtrack to the deepest point with an untried alternative.
package explore

import (
	"fmt"
	"hash/fnv"
)

// CP is one choice point: arity N and the alternative K that was taken.
type CP struct{ N, K int }

// Chooser hands out the decisions of one run.
type Chooser struct {
	prefix []int
	trail  []CP

	// sharding: a run belongs to shard hash(first shardDepth choices) % nShards.
	shardDepth int
	nShards    int
	shard      int
	decided    bool
	done       bool
	dynamic    bool

	countTop bool
	edges    *int64 // new choice-tree edges (points beyond the replayed prefix)
	pub      func([]CP)
}

type skipSignal struct{}

// GeneratorError is raised (as a panic) when a replayed prefix does not fit the
// generator: that is nondeterminism in the harness and must never be read as a
// property violation.
type GeneratorError struct{ Msg string }

func (e *GeneratorError) Error() string { return e.Msg }

// Choose returns an alternative in [0,n).
func (c *Chooser) Choose(n int) int {
	if n <= 0 {
		panic(&GeneratorError{fmt.Sprintf("Choose(%d) at depth %d", n, len(c.trail))})
	}
	if c.done {
		panic(&GeneratorError{"Choose after Done"})
	}
	k := 0
	pos := len(c.trail)
	if pos < len(c.prefix) {
		k = c.prefix[pos]
		if k < 0 || k >= n {
			panic(&GeneratorError{fmt.Sprintf("replayed choice %d out of range [0,%d) at depth %d", k, n, pos)})
		}
	}
	// a choice point is a new choice-tree edge when it lies beyond the replayed
	// prefix, or is the prefix's last element (the alternative this run deviates to)
	if pos >= len(c.prefix)-1 && c.edges != nil && (c.countTop || c.nShards <= 1 || pos >= c.shardDepth) {
		*c.edges++
	}
	c.trail = append(c.trail, CP{n, k})
	if !c.decided && c.nShards > 1 && len(c.trail) == c.shardDepth {
		c.decide()
	}
	return k
}

// Bool is Choose(2)==1.
func (c *Chooser) Bool() bool { return c.Choose(2) == 1 }

// Range returns a value in [lo,hi].
func (c *Chooser) Range(lo, hi int) int { return lo + c.Choose(hi-lo+1) }

// Done must be called by the case body after its last Choose and before the
// (possibly diverging) execution of the case: it settles shard ownership for
// short runs and publishes the trail for the watchdog / crash recovery.
func (c *Chooser) Done() {
	if c.done || c.dynamic {
		return
	}
	if !c.decided && c.nShards > 1 {
		c.decide()
	}
	c.done = true
	if c.pub != nil {
		c.pub(c.trail)
	}
}

func (c *Chooser) decide() {
	c.decided = true
	h := fnv.New32a()
	var b [4]byte
	lim := len(c.trail)
	if lim > c.shardDepth {
		lim = c.shardDepth
	}
	for _, p := range c.trail[:lim] {
		b[0], b[1], b[2], b[3] = byte(p.K), byte(p.K>>8), byte(p.K>>16), byte(p.K>>24)
		h.Write(b[:])
	}
	if int(h.Sum32()%uint32(c.nShards)) != c.shard {
		panic(skipSignal{})
	}
}

// DoneDynamic is Done for case bodies whose execution itself draws further
// choices (controlled schedulers): shard ownership is settled and the trail so
// far published, but Choose stays legal.
func (c *Chooser) DoneDynamic() {
	c.Done()
	c.done = false
	c.dynamic = true
}

// Finish marks the end of a dynamic case.
func (c *Chooser) Finish() { c.done = true }

// Choices returns the choices taken so far.
func (c *Chooser) Choices() []int {
	out := make([]int, len(c.trail))
	for i, p := range c.trail {
		out[i] = p.K
	}
	return out
}

// next computes the DFS successor prefix of a finished trail; ok=false when the
// tree is exhausted. When the run was skipped (not ours) only points inside the
// shard depth are advanced, which prunes the foreign subtree.
func next(trail []CP) ([]int, bool) {
	for i := len(trail) - 1; i >= 0; i-- {
		if trail[i].K+1 < trail[i].N {
			p := make([]int, i+1)
			for j := 0; j < i; j++ {
				p[j] = trail[j].K
			}
			p[i] = trail[i].K + 1
			return p, true
		}
	}
	return nil, false
}

package explore

import (
	"bufio"
	"encoding/json"
	"fmt"
	"io"
	"os"
	"os/exec"
	"path/filepath"
	"sort"
	"strconv"
	"strings"
	"sync"
	"time"
)

// Env is what the parent process knows about a run.
type Env struct {
	PropID   string
	Tier     string
	Seed     int
	Workers  int
	Root     string // /verif
	Deadline time.Time
	Self     string // path of this binary
}

// Result is what a run found and covered.
type Result struct {
	Stats       []*PhaseStat
	Violations  []*Violation // distinct keys, representative = smallest case
	Outcomes    map[string]struct{}
	Samples     []string
	Exhaustive  bool
	CapHit      string
	Extra       map[string]interface{} // additional coverage keys
	HarnessErr  string
	Assumptions []string
}

type known struct {
	status, prop, key, what string
}

func loadKnown(root string) []known {
	b, err := os.ReadFile(filepath.Join(root, "known_findings.txt"))
	if err != nil {
		return nil
	}
	var ks []known
	for _, l := range strings.Split(string(b), "\n") {
		l = strings.TrimSpace(l)
		if l == "" || strings.HasPrefix(l, "#") {
			continue
		}
		// open: property=C18 key=<key> :: <what>
		// fixed: property=C08 <commit> <what>
		if strings.HasPrefix(l, "open: ") {
			rest := strings.TrimPrefix(l, "open: ")
			f := strings.SplitN(rest, " ", 2)
			if len(f) < 2 || !strings.HasPrefix(f[0], "property=") || !strings.HasPrefix(f[1], "key=") {
				continue
			}
			kv := strings.SplitN(strings.TrimPrefix(f[1], "key="), " :: ", 2)
			k := known{status: "open", prop: strings.TrimPrefix(f[0], "property="), key: kv[0]}
			if len(kv) > 1 {
				k.what = kv[1]
			}
			ks = append(ks, k)
		}
	}
	return ks
}

type workerRun struct {
	stats   []*PhaseStat
	viols   []*Violation
	perKey  map[string]int
	outs    []string
	samples []string
	fatal   string
	descs   []string
	hang    map[string]interface{}
	done    bool
}

func runWorkerOnce(env *Env, args []string) (*workerRun, int, error) {
	return runWorkerOnceEnv(env, args)
}

func runWorkerOnceEnv(env *Env, args []string, extraEnv ...string) (*workerRun, int, error) {
	cmd := exec.Command(env.Self, args...)
	cmd.Env = append(append(os.Environ(), "GOMAXPROCS=1", "GOGC=200", "GOTRACEBACK=single"), extraEnv...)
	stdout, err := cmd.StdoutPipe()
	if err != nil {
		return nil, 0, err
	}
	var errBuf strings.Builder
	stderr, _ := cmd.StderrPipe()
	if err := cmd.Start(); err != nil {
		return nil, 0, err
	}
	var wg sync.WaitGroup
	wg.Add(1)
	go func() {
		defer wg.Done()
		b, _ := io.ReadAll(io.LimitReader(stderr, 1<<20))
		errBuf.Write(b)
		io.Copy(io.Discard, stderr)
	}()
	wr := &workerRun{perKey: map[string]int{}}
	rd := bufio.NewReaderSize(stdout, 1<<20)
	for {
		line, err := rd.ReadBytes('\n')
		if len(line) > 0 {
			var m map[string]json.RawMessage
			if json.Unmarshal(line, &m) == nil {
				var t string
				json.Unmarshal(m["t"], &t)
				switch t {
				case "viol":
					v := &Violation{}
					json.Unmarshal(m["v"], v)
					wr.viols = append(wr.viols, v)
				case "fatal":
					wr.fatal = string(line)
				case "hang":
					var h map[string]interface{}
					json.Unmarshal(line, &h)
					wr.hang = h
					json.Unmarshal(m["stats"], &wr.stats)
					json.Unmarshal(m["perkey"], &wr.perKey)
				case "done":
					wr.done = true
					json.Unmarshal(m["stats"], &wr.stats)
					json.Unmarshal(m["outcomes"], &wr.outs)
					json.Unmarshal(m["samples"], &wr.samples)
					json.Unmarshal(m["perkey"], &wr.perKey)
				case "desc":
					var s string
					json.Unmarshal(m["msg"], &s)
					wr.descs = append(wr.descs, s)
				case "log":
					var s string
					json.Unmarshal(m["msg"], &s)
					fmt.Println("  " + s)
				}
			}
		}
		if err != nil {
			break
		}
	}
	wg.Wait()
	werr := cmd.Wait()
	code := 0
	if werr != nil {
		if ee, ok := werr.(*exec.ExitError); ok {
			code = ee.ExitCode()
		} else {
			code = -1
		}
	}
	if code != 0 && code != 3 && wr.fatal == "" {
		s := errBuf.String()
		if len(s) > 1500 {
			s = s[:1500]
		}
		wr.fatal = ""
		return wr, code, fmt.Errorf("%s", s)
	}
	return wr, code, nil
}

// RunE1 drives the E1 phases of a property across worker subprocesses.
func RunE1(env *Env, p *Prop) *Result {
	res := &Result{Outcomes: map[string]struct{}{}, Exhaustive: true, Extra: map[string]interface{}{}}
	work := filepath.Join(env.Root, ".work")
	os.MkdirAll(work, 0o755)
	type agg struct {
		mu sync.Mutex
	}
	var mu sync.Mutex
	statMap := map[string]*PhaseStat{}
	incomplete := map[string]bool{}
	violByKey := map[string]*Violation{}
	counts := map[string]int{}
	addViol := func(v *Violation) {
		old, ok := violByKey[v.Key]
		if !ok || len(v.Choices) < len(old.Choices) || (len(v.Choices) == len(old.Choices) && v.Size < old.Size) {
			violByKey[v.Key] = v
		}
	}
	var wg sync.WaitGroup
	totalRestarts := 0
	for i := 0; i < env.Workers; i++ {
		wg.Add(1)
		go func(i int) {
			defer wg.Done()
			region := filepath.Join(work, fmt.Sprintf("%s-%s-w%d.cur", env.PropID, env.Tier, i))
			after := ""
			restarts := 0
			scratchRetries := 0
			hangFactor := 1.0
			for {
				os.Remove(region)
				args := []string{"-worker", "-prop", env.PropID, "-tier", env.Tier, "-idx", strconv.Itoa(i), "-n", strconv.Itoa(env.Workers),
					"-seed", strconv.Itoa(env.Seed), "-deadline", strconv.FormatInt(env.Deadline.Unix(), 10), "-region", region}
				if after != "" {
					args = append(args, "-after", after)
				}
				wr, code, err := runWorkerOnceEnv(env, args, fmt.Sprintf("VERIF_HANG_FACTOR=%g", hangFactor))
				if code == 3 && wr != nil && wr.hang != nil {
					if okh, _ := wr.hang["ok"].(bool); !okh && scratchRetries < 1 {
						wr.stats = nil // discarded: the worker is re-run from the beginning
					}
				}
				mu.Lock()
				if wr != nil {
					for _, st := range wr.stats {
						k := st.Phase + "/" + strconv.Itoa(st.Size)
						a := statMap[k]
						if a == nil {
							a = &PhaseStat{Phase: st.Phase, Size: st.Size, Complete: true}
							statMap[k] = a
						}
						a.Leaves += st.Leaves
						a.Edges += st.Edges
						a.Validated += st.Validated
						a.Nontrivial += st.Nontrivial
						a.Evals += st.Evals
						if wr.done && !st.Complete {
							incomplete[k] = true
						}
					}
					for _, v := range wr.viols {
						addViol(v)
					}
					for k, n := range wr.perKey {
						counts[k] += n
					}
					for _, o := range wr.outs {
						res.Outcomes[o] = struct{}{}
					}
					if len(res.Samples) < 40 {
						res.Samples = append(res.Samples, wr.samples...)
					}
					if wr.fatal != "" {
						res.HarnessErr = wr.fatal
					}
				}
				mu.Unlock()
				if wr != nil && wr.done && code == 0 {
					return
				}
				if wr != nil && wr.fatal != "" {
					return
				}
				// hang (exit 3) or crash: find the case, report it, resume after it.
				var ph, size int
				var trail []CP
				ok := false
				kind := "crash"
				note := ""
				if code == 3 && wr != nil && wr.hang != nil {
					kind = "hang"
					ph = int(wr.hang["ph"].(float64))
					size = int(wr.hang["size"].(float64))
					trail = parseTrail(wr.hang["trail"].(string))
					ok, _ = wr.hang["ok"].(bool)
				} else {
					if b, e := os.ReadFile(region); e == nil {
						ph, size, trail, ok = readRegion(b)
					}
					if err != nil {
						note = err.Error()
					}
				}
				if !ok && code == 3 && scratchRetries < 1 {
					// the watchdog fired before any case was published (a slow start on a
					// loaded machine): run this worker again from the beginning with a longer limit
					scratchRetries++
					hangFactor *= 3
					after = ""
					continue
				}
				if !ok {
					if wr != nil && wr.hang != nil {
						note += fmt.Sprint(" stack at the watchdog: ", wr.hang["stack"])
					}
					mu.Lock()
					res.HarnessErr = fmt.Sprintf("worker %d died (exit %d) without a recoverable case: %s", i, code, note)
					mu.Unlock()
					return
				}
				choices := make([]int, len(trail))
				for j, t := range trail {
					choices[j] = t.K
				}
				v := &Violation{Kind: kind, Key: kind + ":pending", Phase: p.Phases[ph].Name, PhaseIx: ph, Size: size, Choices: choices,
					Detail: Detail{Observed: kind, Note: note}}
				mu.Lock()
				v.Key = fmt.Sprintf("%s:%s:%d:%s", kind, v.Phase, size, joinInts(choices))
				addViol(v)
				counts[v.Key]++
				mu.Unlock()
				after = fmt.Sprintf("%d:%d:%s", ph, size, trailString(trail))
				restarts++
				mu.Lock()
				totalRestarts++
				tooMany := restarts > 40 || totalRestarts > 12
				if tooMany {
					// every hang/crash so far is on record as a violation; do not spend the budget
					// waiting for the watchdog on the rest of a space that is already known to be broken
					res.Exhaustive = false
					res.CapHit = "exploration stopped after more than 12 hangs/crashes (each one reported)"
				}
				mu.Unlock()
				if tooMany {
					return
				}
			}
		}(i)
	}
	wg.Wait()

	for _, ph := range p.Phases {
		for _, size := range sizesFor(&ph, env.Tier) {
			k := ph.Name + "/" + strconv.Itoa(size)
			if st := statMap[k]; st != nil {
				if incomplete[k] {
					st.Complete = false
					res.Exhaustive = false
					if res.CapHit == "" {
						res.CapHit = "time budget reached in " + k
					}
				}
				res.Stats = append(res.Stats, st)
			}
		}
	}
	keys := make([]string, 0, len(violByKey))
	for k := range violByKey {
		keys = append(keys, k)
	}
	sort.Strings(keys)
	for _, k := range keys {
		v := violByKey[k]
		v.Count = counts[k]
		res.Violations = append(res.Violations, v)
	}
	return res
}

func joinInts(a []int) string {
	s := make([]string, len(a))
	for i, v := range a {
		s[i] = strconv.Itoa(v)
	}
	return strings.Join(s, ",")
}

// Replay re-runs one recorded case in a fresh worker and returns the
// violations it reports (and whether it hung or crashed).
func Replay(env *Env, v *Violation) (keys map[string]*Violation, status string) {
	keys, status, _ = ReplayDesc(env, v)
	return
}

// ReplayDesc is Replay that also returns the last case description announced
// by the worker before it finished, hung or died.
func ReplayDesc(env *Env, v *Violation) (keys map[string]*Violation, status string, desc string) {
	work := filepath.Join(env.Root, ".work")
	os.MkdirAll(work, 0o755)
	region := filepath.Join(work, fmt.Sprintf("%s-replay-%d.cur", env.PropID, os.Getpid()))
	defer os.Remove(region)
	args := []string{"-worker", "-prop", env.PropID, "-tier", env.Tier, "-idx", "0", "-n", "1", "-seed", "0",
		"-deadline", strconv.FormatInt(time.Now().Add(time.Hour).Unix(), 10), "-region", region,
		"-replay", fmt.Sprintf("%d:%d:%s", v.PhaseIx, v.Size, joinInts(v.Choices))}
	wr, code, err := runWorkerOnce(env, args)
	keys = map[string]*Violation{}
	if wr != nil {
		for _, x := range wr.viols {
			keys[x.Key] = x
		}
		if n := len(wr.descs); n > 0 {
			desc = wr.descs[n-1]
		}
		if wr.fatal != "" {
			return keys, "fatal: " + wr.fatal, desc
		}
	}
	switch {
	case code == 3:
		return keys, "hang", desc
	case code != 0:
		s := ""
		if err != nil {
			s = err.Error()
		}
		return keys, "crash: " + firstLines(s, 6), desc
	}
	return keys, "ok", desc
}

// ContextReplay re-runs the worker that found v from its first case up to and
// including v's case, so that process-global state left by earlier cases is
// recreated deterministically.
func ContextReplay(env *Env, v *Violation) (keys map[string]*Violation, status string) {
	work := filepath.Join(env.Root, ".work")
	region := filepath.Join(work, fmt.Sprintf("%s-ctxreplay-%d.cur", env.PropID, os.Getpid()))
	defer os.Remove(region)
	args := []string{"-worker", "-prop", env.PropID, "-tier", env.Tier, "-idx", strconv.Itoa(v.Shard), "-n", strconv.Itoa(v.NShards), "-seed", strconv.Itoa(v.Seed),
		"-deadline", strconv.FormatInt(time.Now().Add(time.Hour).Unix(), 10), "-region", region,
		"-until", fmt.Sprintf("%d:%d:%s", v.PhaseIx, v.Size, joinInts(v.Choices))}
	wr, code, _ := runWorkerOnce(env, args)
	keys = map[string]*Violation{}
	if wr != nil {
		for _, x := range wr.viols {
			keys[x.Key] = x
		}
	}
	if code != 0 {
		return keys, fmt.Sprintf("exit %d", code)
	}
	return keys, "ok"
}

func firstLines(s string, n int) string {
	l := strings.Split(s, "\n")
	if len(l) > n {
		l = l[:n]
	}
	return strings.Join(l, "\n")
}

// Finish confirms violations by replay, applies the known-findings file,
// writes replay files and the evidence file, prints the verdict lines and
// returns the process exit code.
func Finish(env *Env, p *Prop, res *Result, start time.Time) int {
	kn := loadKnown(env.Root)
	replayDir := filepath.Join(env.Root, "replay", env.PropID)
	os.RemoveAll(replayDir)
	nViol, nKnown, nFlaky := 0, 0, 0
	var slow []string
	var knownLines []string
	confirmCap := 12
	confirmed := 0
	for _, v := range res.Violations {
		isKnown := false
		for _, k := range kn {
			if k.prop == env.PropID && k.key == v.Key {
				isKnown = true
				nKnown++
				knownLines = append(knownLines, fmt.Sprintf("KNOWN-FINDING: property=%s %s", env.PropID, k.what))
				break
			}
		}
		if isKnown {
			continue
		}
		if p.Custom == nil && confirmed < confirmCap && v.Kind != "race-detector" { // race-detector findings were confirmed by a second run of the pass
			// re-run from the recorded choice sequence twice; identical observation required
			ok := true
			var last *Violation
			for rep := 0; rep < 2; rep++ {
				keys, status, desc := ReplayDesc(env, v)
				if desc != "" && (v.Kind == "hang" || v.Kind == "crash") {
					v.Detail.Program = desc
				}
				switch v.Kind {
				case "hang":
					if status != "hang" {
						ok = false
					}
				case "crash":
					if !strings.HasPrefix(status, "crash") {
						ok = false
					} else {
						v.Detail.Note = status
					}
				default:
					if x, found := keys[v.Key]; found {
						last = x
					} else {
						ok = false
					}
				}
			}
			if last != nil && last.Detail.Program != "" {
				v.Detail = last.Detail
			}
			if !ok && p.ContextReplay && v.Kind != "hang" && v.Kind != "crash" {
				// not reproducible alone: recreate the process history of its worker
				ok = true
				for rep := 0; rep < 2; rep++ {
					keys, _ := ContextReplay(env, v)
					if _, found := keys[v.Key]; !found {
						ok = false
					}
				}
				if ok {
					v.Context = true
					v.Detail.Note += " [depends on the evaluations that preceded it in the same process: replay re-runs worker " +
						fmt.Sprintf("%d/%d", v.Shard, v.NShards) + " up to this case]"
				}
			}
			confirmed++
			if !ok && (v.Kind == "hang" || v.Kind == "crash") {
				// a case that is slow on a loaded machine but terminates when run alone is not a hang
				slow = append(slow, fmt.Sprintf("%s %s size %d choices %v", v.Kind, v.Phase, v.Size, v.Choices))
				continue
			}
			if !ok {
				nFlaky++
				fmt.Printf("HARNESS-FLAKY property=%s key=%q did not reproduce from its choice sequence\n", env.PropID, v.Key)
				continue
			}
		}
		nViol++
		if nViol <= 25 {
			os.MkdirAll(replayDir, 0o755)
			path := filepath.Join(replayDir, fmt.Sprintf("%d.json", nViol))
			b, _ := json.MarshalIndent(map[string]interface{}{"property": env.PropID, "tier": env.Tier, "violation": v}, "", " ")
			os.WriteFile(path, b, 0o644)
			fmt.Printf("VIOLATION property=%s replay=%s\n", env.PropID, path)
			fmt.Printf("  kind=%s key=%q cases=%d\n  program: %s\n  input: %s\n  expected: %s\n  observed: %s\n  %s\n", v.Kind, v.Key, v.Count,
				v.Detail.Program, v.Detail.Input, v.Detail.Expected, v.Detail.Observed, v.Detail.Note)
		}
	}
	sort.Strings(knownLines)
	for i, l := range knownLines {
		if i == 0 || knownLines[i-1] != l {
			fmt.Println(l)
		}
	}

	// evidence
	var leaves, edges, validated, nontrivial, evals int64
	bound := map[string]int{}
	var phases []map[string]interface{}
	for _, st := range res.Stats {
		leaves += st.Leaves
		edges += st.Edges
		validated += st.Validated
		nontrivial += st.Nontrivial
		evals += st.Evals
		if st.Complete {
			if st.Size > bound[st.Phase] {
				bound[st.Phase] = st.Size
			}
		}
		phases = append(phases, map[string]interface{}{"phase": st.Phase, "size": st.Size, "cases": st.Leaves, "edges": st.Edges,
			"validated": st.Validated, "nontrivial": st.Nontrivial, "complete": st.Complete})
	}
	samples := res.Samples
	if len(samples) > 16 {
		samples = samples[:16]
	}
	if len(samples) == 0 {
		samples = []string{"(no sample recorded)"}
	}
	if evals == 0 {
		evals = leaves
	}
	cov := map[string]interface{}{
		"states":                        leaves,
		"transitions":                   edges,
		"traces_validated_against_impl": validated,
		"samples":                       samples,
		"evaluations":                   evals,
		"distinct_nontrivial":           nontrivial,
		"rule":                          p.Rule,
		"distinct_outcomes":             len(res.Outcomes),
		"exhaustive":                    res.Exhaustive,
		"bound_completed":               bound,
		"cap_hit":                       res.CapHit,
		"phases":                        phases,
		"known_findings_matched":        nKnown,
		"workers":                       env.Workers,
	}
	for k, v := range res.Extra {
		cov[k] = v
	}
	if len(slow) > 0 {
		cov["slow_cases_not_hangs"] = slow
	}
	if leaves < 1 {
		cov["states"] = 1
	}
	if edges < 1 {
		cov["transitions"] = 1
	}
	ev := map[string]interface{}{
		"property_id": env.PropID,
		"tier":        env.Tier,
		"seed":        env.Seed,
		"level":       "model_checking",
		"coverage":    cov,
		"assumptions": append(append([]string{}, p.Assumptions...), res.Assumptions...),
		"wall_s":      time.Since(start).Seconds(),
		"violations":  nViol,
		"technique":   p.Technique,
	}
	os.MkdirAll(filepath.Join(env.Root, "evidence"), 0o755)
	b, _ := json.MarshalIndent(ev, "", " ")
	os.WriteFile(filepath.Join(env.Root, "evidence", env.PropID+".json"), b, 0o644)

	fmt.Printf("%s %s: cases=%d edges=%d validated=%d nontrivial=%d outcomes=%d exhaustive=%v violations=%d known=%d wall=%.1fs %s\n",
		env.PropID, env.Tier, leaves, edges, validated, nontrivial, len(res.Outcomes), res.Exhaustive, nViol, nKnown, time.Since(start).Seconds(), res.CapHit)
	if res.HarnessErr != "" {
		fmt.Printf("HARNESS-ERROR property=%s %s\n", env.PropID, res.HarnessErr)
		if nViol > 0 {
			return 1
		}
		return 2
	}
	if nViol > 0 {
		return 1
	}
	if nFlaky > 0 {
		return 2
	}
	return 0
}

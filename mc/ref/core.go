package ref

import (
	"math"
	"strings"
)

// Node is a reference program tree. Generators build these directly; Text
// renders them to JSONata source for the implementation.
type Node interface{}

// Expression nodes.
type (
	// Lit is a literal; Src is its source text.
	Lit struct {
		Val interface{}
		Src string
	}
	// Name is a field-name step (Quoted: back-quoted form).
	Name struct {
		N      string
		Quoted bool
	}
	// Var is $name; "" is $ (context) and "$" is $$ (root).
	Var struct{ N string }
	// Neg is unary minus.
	Neg struct{ X Node }
	// Bin is a binary operator: + - * / % = != < <= > >= in and or &.
	Bin struct {
		Op   string
		L, R Node
	}
	// Cond is c ? t : e (E may be nil).
	Cond struct{ C, T, E Node }
	// Arr is an array constructor; items may be Rng.
	Arr struct{ Items []Node }
	// Rng is a..b inside an array constructor.
	Rng struct{ L, R Node }
	// Obj is an object constructor.
	Obj struct{ Pairs [][2]Node }
	// Paren is a parenthesised expression / block.
	Paren struct{ Exprs []Node }
	// Raw is opaque source text whose reference value is supplied by the generator.
	Raw struct {
		Src string
		Fn  func(ctx interface{}, env *Env) (interface{}, error)
	}
)

// Text renders a node as JSONata source.
func Text(n Node) string {
	var sb strings.Builder
	text(&sb, n)
	return sb.String()
}

func text(sb *strings.Builder, n Node) {
	switch x := n.(type) {
	case *Lit:
		sb.WriteString(x.Src)
	case *Name:
		if x.Quoted {
			sb.WriteString("`" + x.N + "`")
		} else {
			sb.WriteString(x.N)
		}
	case *Var:
		sb.WriteString("$" + x.N)
	case *Neg:
		sb.WriteString("-")
		textOperand(sb, x.X)
	case *Bin:
		textOperand(sb, x.L)
		sb.WriteString(" " + x.Op + " ")
		textOperand(sb, x.R)
	case *Cond:
		textOperand(sb, x.C)
		sb.WriteString(" ? ")
		textOperand(sb, x.T)
		if x.E != nil {
			sb.WriteString(" : ")
			textOperand(sb, x.E)
		}
	case *Arr:
		sb.WriteString("[")
		for i, it := range x.Items {
			if i > 0 {
				sb.WriteString(", ")
			}
			text(sb, it)
		}
		sb.WriteString("]")
	case *Rng:
		textOperand(sb, x.L)
		sb.WriteString("..")
		textOperand(sb, x.R)
	case *Obj:
		sb.WriteString("{")
		for i, p := range x.Pairs {
			if i > 0 {
				sb.WriteString(", ")
			}
			text(sb, p[0])
			sb.WriteString(": ")
			text(sb, p[1])
		}
		sb.WriteString("}")
	case *Paren:
		sb.WriteString("(")
		for i, e := range x.Exprs {
			if i > 0 {
				sb.WriteString("; ")
			}
			text(sb, e)
		}
		sb.WriteString(")")
	case *Raw:
		sb.WriteString(x.Src)
	default:
		textExt(sb, n)
	}
}

// textOperand parenthesises composite operands so that the printed text has
// exactly the tree's structure whatever the precedences are.
func textOperand(sb *strings.Builder, n Node) {
	switch n.(type) {
	case *Bin, *Cond, *Neg, *Rng:
		sb.WriteString("(")
		text(sb, n)
		sb.WriteString(")")
	default:
		if needsParenExt(n) {
			sb.WriteString("(")
			text(sb, n)
			sb.WriteString(")")
			return
		}
		text(sb, n)
	}
}

// Env is a lexical environment frame.
type Env struct {
	vars   map[string]interface{}
	parent *Env
	Root   interface{}
}

// NewEnv makes a root environment for an evaluation on input.
func NewEnv(input interface{}) *Env {
	return &Env{vars: map[string]interface{}{}, Root: input}
}

func (e *Env) child() *Env {
	return &Env{vars: map[string]interface{}{}, parent: e, Root: e.Root}
}

func (e *Env) lookup(name string) interface{} {
	for f := e; f != nil; f = f.parent {
		if v, ok := f.vars[name]; ok {
			return v
		}
	}
	if b, ok := builtins[name]; ok {
		return b
	}
	return U
}

// Bind sets a variable in this frame.
func (e *Env) Bind(name string, v interface{}) { e.vars[name] = v }

// Eval evaluates a reference tree with ctx as context item.
func Eval(n Node, ctx interface{}, env *Env) (interface{}, error) {
	switch x := n.(type) {
	case *Lit:
		return x.Val, nil
	case *Name:
		return evalNameOn(x.N, ctx), nil
	case *Var:
		switch x.N {
		case "":
			return ctx, nil
		case "$":
			return env.Root, nil
		}
		return env.lookup(x.N), nil
	case *Neg:
		v, err := Eval(x.X, ctx, env)
		if err != nil {
			return nil, err
		}
		if IsUndef(v) {
			return U, nil
		}
		f, ok := v.(float64)
		if !ok {
			return nil, E("eval:NonNumberRHS")
		}
		return -f, nil
	case *Bin:
		l, err := Eval(x.L, ctx, env)
		if err != nil {
			return nil, err
		}
		r, err := Eval(x.R, ctx, env)
		if err != nil {
			return nil, err
		}
		return BinOp(x.Op, l, r)
	case *Cond:
		c, err := Eval(x.C, ctx, env)
		if err != nil {
			return nil, err
		}
		if Truthy(c) {
			return Eval(x.T, ctx, env)
		}
		if x.E != nil {
			return Eval(x.E, ctx, env)
		}
		return U, nil
	case *Arr:
		out := []interface{}{}
		for _, it := range x.Items {
			if r, ok := it.(*Rng); ok {
				vals, err := evalRange(r, ctx, env)
				if err != nil {
					return nil, err
				}
				out = append(out, vals...)
				continue
			}
			v, err := Eval(it, ctx, env)
			if err != nil {
				return nil, err
			}
			if IsUndef(v) {
				continue
			}
			if _, isCons := it.(*Arr); isCons {
				out = append(out, v)
				continue
			}
			if a, ok := v.([]interface{}); ok {
				out = append(out, a...)
			} else {
				out = append(out, v)
			}
		}
		return out, nil
	case *Paren:
		sub := env.child()
		var v interface{} = U
		var err error
		for _, e := range x.Exprs {
			v, err = Eval(e, ctx, sub)
			if err != nil {
				return nil, err
			}
		}
		return v, nil
	case *Raw:
		return x.Fn(ctx, env)
	}
	return evalExt(n, ctx, env)
}

// MaxRange is the largest range size.
const MaxRange = 10000000

func evalRange(r *Rng, ctx interface{}, env *Env) ([]interface{}, error) {
	l, err := Eval(r.L, ctx, env)
	if err != nil {
		return nil, err
	}
	h, err := Eval(r.R, ctx, env)
	if err != nil {
		return nil, err
	}
	isInt := func(v interface{}) bool {
		f, ok := v.(float64)
		return ok && f == math.Trunc(f)
	}
	lBad := !IsUndef(l) && !isInt(l)
	hBad := !IsUndef(h) && !isInt(h)
	switch {
	case lBad && hBad:
		return nil, E("eval:NonIntegerLHS", "eval:NonIntegerRHS")
	case lBad:
		return nil, E("eval:NonIntegerLHS")
	case hBad:
		return nil, E("eval:NonIntegerRHS")
	}
	if IsUndef(l) || IsUndef(h) {
		return nil, nil
	}
	a, b := l.(float64), h.(float64)
	if a > b {
		return nil, nil
	}
	if b-a+1 > MaxRange {
		return nil, E("eval:MaxRangeItems")
	}
	n := int(b-a) + 1
	out := make([]interface{}, n)
	for i := range out {
		out[i] = a + float64(i)
	}
	return out, nil
}

// BinOp applies a binary operator to two evaluated operands.
func BinOp(op string, l, r interface{}) (interface{}, error) {
	switch op {
	case "+", "-", "*", "/", "%":
		lBad := !IsUndef(l) && KindOf(l) != KNum
		rBad := !IsUndef(r) && KindOf(r) != KNum
		switch {
		case lBad && rBad:
			return nil, E("eval:NonNumberLHS", "eval:NonNumberRHS")
		case lBad:
			return nil, E("eval:NonNumberLHS")
		case rBad:
			return nil, E("eval:NonNumberRHS")
		}
		if IsUndef(l) || IsUndef(r) {
			return U, nil
		}
		a, b := l.(float64), r.(float64)
		var x float64
		switch op {
		case "+":
			x = a + b
		case "-":
			x = a - b
		case "*":
			x = a * b
		case "/":
			x = a / b
		case "%":
			x = math.Mod(a, b) // truncated remainder, sign of the dividend
		}
		if math.IsInf(x, 0) {
			return nil, E("eval:NumberInf")
		}
		if math.IsNaN(x) {
			return nil, E("eval:NumberNaN")
		}
		return x, nil
	case "=", "!=":
		if IsUndef(l) || IsUndef(r) {
			return false, nil
		}
		eq, ok := DeepEqual(l, r)
		if !ok {
			return nil, &Unspecified{"equality involving functions or null=null"}
		}
		if op == "!=" {
			return !eq, nil
		}
		return eq, nil
	case "<", "<=", ">", ">=":
		comparable := func(v interface{}) bool { k := KindOf(v); return k == KNum || k == KStr }
		lBad := !IsUndef(l) && !comparable(l)
		rBad := !IsUndef(r) && !comparable(r)
		switch {
		case lBad && rBad:
			return nil, E("eval:NonComparableLHS", "eval:NonComparableRHS")
		case lBad:
			return nil, E("eval:NonComparableLHS")
		case rBad:
			return nil, E("eval:NonComparableRHS")
		}
		if IsUndef(l) || IsUndef(r) {
			return false, nil
		}
		if KindOf(l) != KindOf(r) {
			return nil, E("eval:TypeMismatch")
		}
		var lt, eq bool
		if a, ok := l.(float64); ok {
			b := r.(float64)
			lt, eq = a < b, a == b
		} else {
			a, b := l.(string), r.(string)
			c := compareCodePoints(a, b)
			lt, eq = c < 0, c == 0
		}
		switch op {
		case "<":
			return lt, nil
		case "<=":
			return lt || eq, nil
		case ">":
			return !lt && !eq, nil
		default:
			return !lt, nil
		}
	case "in":
		if IsUndef(l) || IsUndef(r) {
			return false, nil
		}
		arr, ok := r.([]interface{})
		if !ok {
			arr = []interface{}{r}
		}
		unspec := false
		for _, m := range arr {
			eq, ok := DeepEqual(l, m)
			if !ok {
				unspec = true
				continue
			}
			if eq {
				return true, nil
			}
		}
		if unspec {
			return nil, &Unspecified{"membership involving functions or nulls"}
		}
		return false, nil
	case "and":
		return Truthy(l) && Truthy(r), nil
	case "or":
		return Truthy(l) || Truthy(r), nil
	case "&":
		return StringOf(l) + StringOf(r), nil
	}
	panic("ref: unknown operator " + op)
}

// compareCodePoints orders strings by Unicode code point.
func compareCodePoints(a, b string) int {
	ra, rb := []rune(a), []rune(b)
	for i := 0; i < len(ra) && i < len(rb); i++ {
		if ra[i] != rb[i] {
			if ra[i] < rb[i] {
				return -1
			}
			return 1
		}
	}
	switch {
	case len(ra) < len(rb):
		return -1
	case len(ra) > len(rb):
		return 1
	}
	return 0
}

// evalNameOn selects the member called name from a context item. For an array
// item (reachable only through arrays nested in arrays) nested arrays are
// transparent and member values are units (DESIGN §5 C01, clause iii).
func evalNameOn(name string, ctx interface{}) interface{} {
	switch x := ctx.(type) {
	case map[string]interface{}:
		if v, ok := x[name]; ok {
			return v
		}
		return U
	case []interface{}:
		var items []interface{}
		var walk func(a []interface{})
		walk = func(a []interface{}) {
			for _, m := range a {
				switch y := m.(type) {
				case []interface{}:
					walk(y)
				case map[string]interface{}:
					if v, ok := y[name]; ok {
						items = append(items, v)
					}
				}
			}
		}
		walk(x)
		switch len(items) {
		case 0:
			return U
		case 1:
			return items[0]
		}
		return items
	}
	return U
}

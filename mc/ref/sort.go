package ref

// evalSort is x^(k1, ..., kn): a stable permutation of x's items ordered by
// the key tuple, absent keys last, per-term direction; keys must be all
// numbers or all strings per term.
func evalSort(s *Sort, ctx interface{}, env *Env) (interface{}, error) {
	v, err := Eval(s.X, ctx, env)
	if err != nil {
		return nil, err
	}
	if IsUndef(v) {
		return U, nil
	}
	items, ok := v.([]interface{})
	if !ok {
		items = []interface{}{v}
	}
	nt := len(s.Terms)
	keys := make([][]interface{}, len(items))
	isNum := make([]bool, nt)
	isStr := make([]bool, nt)
	for i, it := range items {
		keys[i] = make([]interface{}, nt)
		for j, t := range s.Terms {
			k, err := Eval(t.Key, it, env)
			if err != nil {
				return nil, err
			}
			keys[i][j] = k
			switch k.(type) {
			case Undef:
			case float64:
				if isStr[j] {
					return nil, E("eval:SortMismatch")
				}
				isNum[j] = true
			case string:
				if isNum[j] {
					return nil, E("eval:SortMismatch")
				}
				isStr[j] = true
			default:
				return nil, E("eval:NonSortable")
			}
		}
	}
	less := func(a, b int) bool {
		for j, t := range s.Terms {
			ka, kb := keys[a][j], keys[b][j]
			ua, ub := IsUndef(ka), IsUndef(kb)
			switch {
			case ua && ub:
				continue
			case ua:
				return false
			case ub:
				return true
			}
			var c int
			if fa, ok := ka.(float64); ok {
				fb := kb.(float64)
				switch {
				case fa < fb:
					c = -1
				case fa > fb:
					c = 1
				}
			} else {
				c = compareCodePoints(ka.(string), kb.(string))
			}
			if c == 0 {
				continue
			}
			if t.Dir == ">" {
				return c > 0
			}
			return c < 0
		}
		return false
	}
	// stable insertion sort on indexes
	idx := make([]int, len(items))
	for i := range idx {
		idx[i] = i
	}
	for i := 1; i < len(idx); i++ {
		for j := i; j > 0 && less(idx[j], idx[j-1]); j-- {
			idx[j], idx[j-1] = idx[j-1], idx[j]
		}
	}
	out := make([]interface{}, len(items))
	for i, k := range idx {
		out[i] = items[k]
	}
	if len(out) == 1 {
		return out[0], nil
	}
	return out, nil
}

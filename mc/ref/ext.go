package ref

import (
	"fmt"
	"strings"
)

// Func is a reference function value.
type Func struct {
	Name    string
	Arity   int
	Call    func(args []interface{}) (interface{}, error)
	CallCtx func(args []interface{}, ctx interface{}) (interface{}, error)
}

// Call is f(args...).
type Call struct {
	Fn   Node
	Args []Node
}

var builtins = map[string]*Func{}

func textExt(sb *strings.Builder, n Node) {
	switch x := n.(type) {
	case *Path:
		textPath(sb, x)
	case *Pred:
		textPred(sb, x)
	case *Wild:
		sb.WriteString("*")
	case *Desc:
		sb.WriteString("**")
	case *Call:
		text(sb, x.Fn)
		sb.WriteString("(")
		for i, a := range x.Args {
			if i > 0 {
				sb.WriteString(", ")
			}
			text(sb, a)
		}
		sb.WriteString(")")
	default:
		if !textExt2(sb, n) {
			panic(fmt.Sprintf("ref: cannot print %T", n))
		}
	}
}

func needsParenExt(n Node) bool {
	return needsParenExt2(n)
}

func evalExt(n Node, ctx interface{}, env *Env) (interface{}, error) {
	switch x := n.(type) {
	case *Path:
		return evalPath(x, ctx, env)
	case *Pred:
		return evalPred(x, ctx, env)
	case *Wild:
		return evalWild(ctx), nil
	case *Desc:
		return evalDesc(ctx), nil
	case *Obj:
		return evalObjCons(x, ctx, env)
	case *Call:
		return evalCall(x, ctx, env)
	}
	return evalExt2(n, ctx, env)
}

// evalCall evaluates a call of a reference function value.
func evalCall(c *Call, ctx interface{}, env *Env) (interface{}, error) {
	fv, err := Eval(c.Fn, ctx, env)
	if err != nil {
		return nil, err
	}
	f, ok := fv.(*Func)
	if !ok {
		return nil, E("eval:NonCallable")
	}
	args := make([]interface{}, len(c.Args))
	for i, a := range c.Args {
		args[i], err = Eval(a, ctx, env)
		if err != nil {
			return nil, err
		}
	}
	if f.CallCtx != nil {
		return f.CallCtx(args, ctx)
	}
	return f.Call(args)
}

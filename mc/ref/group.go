package ref

// evalGroup is the object model shared by {k: v} and seq{k: v}: one member per
// distinct key string; v is evaluated with the list of exactly those items, in
// order, for which k evaluated to that key (all items for a literal key);
// absent values are omitted; a non-string key and a key produced by two
// different pairs are errors.
func evalGroup(o *Obj, items []interface{}, whole interface{}, env *Env) (interface{}, error) {
	type group struct {
		pair  int
		items []interface{}
		all   bool
	}
	groups := map[string]*group{}
	var order []string
	for pi, pair := range o.Pairs {
		if lit, ok := pair[0].(*Lit); ok {
			if s, isStr := lit.Val.(string); isStr {
				if _, dup := groups[s]; dup {
					return nil, E("eval:DuplicateKey")
				}
				groups[s] = &group{pair: pi, all: true}
				order = append(order, s)
				continue
			}
		}
		for _, it := range items {
			k, err := Eval(pair[0], it, env)
			if err != nil {
				return nil, err
			}
			if IsUndef(k) {
				return nil, &Unspecified{"absent grouping key"}
			}
			s, ok := k.(string)
			if !ok {
				return nil, E("eval:IllegalKey")
			}
			g, seen := groups[s]
			if !seen {
				groups[s] = &group{pair: pi, items: []interface{}{it}}
				order = append(order, s)
				continue
			}
			if g.pair != pi {
				return nil, E("eval:DuplicateKey")
			}
			g.items = append(g.items, it)
		}
	}
	out := map[string]interface{}{}
	var firstErr error
	nErr := 0
	for _, k := range order {
		g := groups[k]
		var c interface{}
		list := g.items
		if g.all {
			list = items
		}
		c = list
		if len(list) == 1 {
			c = list[0] // a group of one item is that item itself
		}
		v, err := Eval(o.Pairs[g.pair][1], c, env)
		if err != nil {
			if _, un := err.(*Unspecified); un {
				return nil, err
			}
			nErr++
			if firstErr == nil {
				firstErr = err
			}
			continue
		}
		if !IsUndef(v) {
			out[k] = v
		}
	}
	if nErr == 1 {
		return nil, firstErr
	}
	if nErr > 1 {
		return nil, E() // which member's error is reported is unspecified
	}
	return out, nil
}

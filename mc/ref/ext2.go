package ref

import (
	"fmt"
	"strings"
)

// Function-related nodes.
type (
	// Assign is $name := value (binds in the enclosing block's frame).
	Assign struct {
		Name string
		Val  Node
	}
	// Lambda is function($p1, ...){body}; Sig is the raw signature text ("" if untyped).
	Lambda struct {
		Params []string
		Body   Node
		Sig    string
	}
	// Partial is f(a, ?, b): nil entries of Args are placeholders.
	Partial struct {
		Fn   Node
		Args []Node
	}
	// Apply is lhs ~> rhs.
	Apply struct{ L, R Node }
	// Transform is |pattern|update[,delete]|.
	Transform struct{ Pattern, Update, Delete Node }
	// Sort is x^(terms).
	Sort struct {
		X     Node
		Terms []SortTerm
	}
	// SortTerm is one order-by key; Dir is "", "<" or ">".
	SortTerm struct {
		Dir string
		Key Node
	}
	// Group is x{k: v, ...}.
	Group struct {
		X     Node
		Pairs [][2]Node
	}
)

func textExt2(sb *strings.Builder, n Node) bool {
	switch x := n.(type) {
	case *Assign:
		sb.WriteString("$" + x.Name + " := ")
		text(sb, x.Val)
	case *Lambda:
		sb.WriteString("function(")
		for i, p := range x.Params {
			if i > 0 {
				sb.WriteString(", ")
			}
			sb.WriteString("$" + p)
		}
		sb.WriteString(")")
		if x.Sig != "" {
			sb.WriteString("<" + x.Sig + ">")
		}
		sb.WriteString("{")
		text(sb, x.Body)
		sb.WriteString("}")
	case *Partial:
		text(sb, x.Fn)
		sb.WriteString("(")
		for i, a := range x.Args {
			if i > 0 {
				sb.WriteString(", ")
			}
			if a == nil {
				sb.WriteString("?")
			} else {
				text(sb, a)
			}
		}
		sb.WriteString(")")
	case *Apply:
		textOperand(sb, x.L)
		sb.WriteString(" ~> ")
		textOperand(sb, x.R)
	case *Transform:
		sb.WriteString("|")
		text(sb, x.Pattern)
		sb.WriteString("|")
		text(sb, x.Update)
		if x.Delete != nil {
			sb.WriteString(", ")
			text(sb, x.Delete)
		}
		sb.WriteString("|")
	case *Sort:
		textOperand(sb, x.X)
		sb.WriteString("^(")
		for i, t := range x.Terms {
			if i > 0 {
				sb.WriteString(", ")
			}
			sb.WriteString(t.Dir)
			text(sb, t.Key)
		}
		sb.WriteString(")")
	case *Group:
		textOperand(sb, x.X)
		sb.WriteString("{")
		for i, p := range x.Pairs {
			if i > 0 {
				sb.WriteString(", ")
			}
			text(sb, p[0])
			sb.WriteString(": ")
			text(sb, p[1])
		}
		sb.WriteString("}")
	default:
		return false
	}
	return true
}

func needsParenExt2(n Node) bool {
	switch n.(type) {
	case *Assign, *Apply, *Lambda:
		return true
	}
	return false
}

func evalExt2(n Node, ctx interface{}, env *Env) (interface{}, error) {
	switch x := n.(type) {
	case *Assign:
		v, err := Eval(x.Val, ctx, env)
		if err != nil {
			return nil, err
		}
		env.Bind(x.Name, v)
		return v, nil
	case *Lambda:
		return makeLambda(x, ctx, env)
	case *Partial:
		return evalPartial(x, ctx, env)
	case *Apply:
		return evalApply(x, ctx, env)
	case *Transform:
		return makeTransform(x, env), nil
	case *Sort:
		return evalSort(x, ctx, env)
	case *Group:
		v, err := Eval(x.X, ctx, env)
		if err != nil {
			return nil, err
		}
		var items []interface{}
		switch a := v.(type) {
		case []interface{}:
			items = a
		case Undef:
			return nil, &Unspecified{"grouping of no value"}
		default:
			items = []interface{}{v}
		}
		return evalGroup(&Obj{Pairs: x.Pairs}, items, v, env)
	}
	panic(fmt.Sprintf("ref: cannot evaluate %T", n))
}

// evalObjCons is the plain object constructor {k: v, ...} on one context item:
// the context counts as a list of items (an array context contributes its members).
func evalObjCons(o *Obj, ctx interface{}, env *Env) (interface{}, error) {
	if a, ok := ctx.([]interface{}); ok {
		return evalGroup(o, a, ctx, env)
	}
	return evalGroup(o, []interface{}{ctx}, ctx, env)
}

func makeLambda(l *Lambda, ctx interface{}, env *Env) (interface{}, error) {
	var sig []sigParam
	if l.Sig != "" {
		var err error
		sig, err = parseSig(l.Sig)
		if err != nil {
			return nil, &Unspecified{"signature outside the reference grammar: " + l.Sig}
		}
	}
	f := &Func{Name: "lambda", Arity: len(l.Params)}
	f.Call = func(args []interface{}) (interface{}, error) {
		if l.Sig != "" {
			var err error
			args, err = fitSig(sig, args, ctx)
			if err != nil {
				return nil, err
			}
		}
		frame := env.child()
		for i, p := range l.Params {
			if i < len(args) {
				frame.Bind(p, args[i])
			} else {
				frame.Bind(p, U)
			}
		}
		return Eval(l.Body, ctx, frame)
	}
	return f, nil
}

func evalPartial(p *Partial, ctx interface{}, env *Env) (interface{}, error) {
	fv, err := Eval(p.Fn, ctx, env)
	if err != nil {
		return nil, err
	}
	f, ok := fv.(*Func)
	if !ok {
		return nil, E("eval:NonCallablePartial")
	}
	holes := 0
	for _, a := range p.Args {
		if a == nil {
			holes++
		}
	}
	// f(?, x) is a function of its placeholders: the other arguments are evaluated
	// here, once, when the partial application is made
	bound := make([]interface{}, len(p.Args))
	for i, a := range p.Args {
		if a == nil {
			continue
		}
		v, err := Eval(a, ctx, env)
		if err != nil {
			return nil, err
		}
		bound[i] = v
	}
	pf := &Func{Name: f.Name + "_partial", Arity: holes}
	pf.Call = func(args []interface{}) (interface{}, error) {
		full := make([]interface{}, len(p.Args))
		k := 0
		for i, a := range p.Args {
			if a == nil {
				if k < len(args) {
					full[i] = args[k]
				} else {
					full[i] = U
				}
				k++
				continue
			}
			full[i] = bound[i]
		}
		if f.CallCtx != nil {
			return f.CallCtx(full, ctx)
		}
		return f.Call(full)
	}
	return pf, nil
}

func evalApply(a *Apply, ctx interface{}, env *Env) (interface{}, error) {
	if c, ok := a.R.(*Call); ok {
		// v ~> f(x) is f(v, x)
		return evalCall(&Call{Fn: c.Fn, Args: append([]Node{a.L}, c.Args...)}, ctx, env)
	}
	l, err := Eval(a.L, ctx, env)
	if err != nil {
		return nil, err
	}
	r, err := Eval(a.R, ctx, env)
	if err != nil {
		return nil, err
	}
	g, ok := r.(*Func)
	if !ok {
		return nil, E("eval:NonCallableApply")
	}
	if f, isFn := l.(*Func); isFn {
		// f ~> g applies f then g
		return &Func{Name: "chain", Arity: 1, Call: func(args []interface{}) (interface{}, error) {
			var v interface{} = U
			if len(args) > 0 {
				v = args[0]
			}
			v, err := callFn(f, []interface{}{v}, ctx)
			if err != nil {
				return nil, err
			}
			return callFn(g, []interface{}{v}, ctx)
		}}, nil
	}
	return callFn(g, []interface{}{l}, ctx)
}

func callFn(f *Func, args []interface{}, ctx interface{}) (interface{}, error) {
	if f.CallCtx != nil {
		return f.CallCtx(args, ctx)
	}
	return f.Call(args)
}

// CloneValue deep-copies maps and slices.
func CloneValue(v interface{}) interface{} {
	switch x := v.(type) {
	case []interface{}:
		out := make([]interface{}, len(x))
		for i, e := range x {
			out[i] = CloneValue(e)
		}
		return out
	case map[string]interface{}:
		out := make(map[string]interface{}, len(x))
		for k, e := range x {
			out[k] = CloneValue(e)
		}
		return out
	case *Func:
		return "" // the copy is taken through the JSON text of the value, in which a function is the empty string
	}
	return v
}

// makeTransform: the transform returns a deep copy of its argument in which
// exactly the objects selected by the pattern (evaluated on the copy) have the
// update object's members set and the deleted names removed.
func makeTransform(t *Transform, env *Env) *Func {
	f := &Func{Name: "transform", Arity: 1}
	f.Call = func(args []interface{}) (interface{}, error) {
		if len(args) != 1 {
			return nil, E("argcount")
		}
		arg := args[0]
		if IsUndef(arg) {
			return U, nil
		}
		switch arg.(type) {
		case map[string]interface{}, []interface{}:
		default:
			return nil, E("argtype")
		}
		cp := CloneValue(arg)
		sel, err := Eval(t.Pattern, cp, env)
		if err != nil {
			return nil, err
		}
		var items []interface{}
		switch s := sel.(type) {
		case Undef:
		case []interface{}:
			items = s
		default:
			items = []interface{}{sel}
		}
		for _, it := range items {
			obj, ok := it.(map[string]interface{})
			if !ok {
				continue
			}
			upd, err := Eval(t.Update, obj, env)
			if err != nil {
				return nil, err
			}
			if !IsUndef(upd) {
				u, ok := upd.(map[string]interface{})
				if !ok {
					return nil, E("eval:IllegalUpdate")
				}
				for k, v := range u {
					obj[k] = v
				}
			}
			if t.Delete != nil {
				del, err := Eval(t.Delete, obj, env)
				if err != nil {
					return nil, err
				}
				if IsUndef(del) {
					continue
				}
				var names []interface{}
				if a, ok := del.([]interface{}); ok {
					names = a
				} else {
					names = []interface{}{del}
				}
				for _, n := range names {
					if _, ok := n.(string); !ok {
						return nil, E("eval:IllegalDelete")
					}
				}
				for _, n := range names {
					delete(obj, n.(string))
				}
			}
		}
		return cp, nil
	}
	return f
}

package ref

import (
	"fmt"
	"strings"
)

func textExt2(sb *strings.Builder, n Node) bool { return false }

func needsParenExt2(n Node) bool { return false }

func evalExt2(n Node, ctx interface{}, env *Env) (interface{}, error) {
	panic(fmt.Sprintf("ref: cannot evaluate %T", n))
}

// evalObjCons is the plain object constructor {k: v, ...} on one context item
// (grouping over sequences lives in group.go).
func evalObjCons(o *Obj, ctx interface{}, env *Env) (interface{}, error) {
	return evalGroup(o, []interface{}{ctx}, ctx, env)
}

package ref

import "fmt"

// sigParam is one parameter of a lambda signature.
type sigParam struct {
	types string    // set of type letters (a union has several)
	sub   *sigParam // element type of a<...>
	opt   byte      // 0, '?', '+', '-'
}

// parseSig parses the reference subset of the signature grammar:
// letter | (letters) , optional <subtype> after a, optional option, optional :return.
func parseSig(s string) ([]sigParam, error) {
	var out []sigParam
	i := 0
	for i < len(s) {
		c := s[i]
		switch {
		case c == ':':
			return out, nil
		case c == '(':
			j := i + 1
			for j < len(s) && s[j] != ')' {
				j++
			}
			if j >= len(s) {
				return nil, fmt.Errorf("unclosed union")
			}
			out = append(out, sigParam{types: s[i+1 : j]})
			i = j + 1
		case c == '<':
			if len(out) == 0 {
				return nil, fmt.Errorf("subtype without parameter")
			}
			depth, j := 0, i
			for ; j < len(s); j++ {
				if s[j] == '<' {
					depth++
				}
				if s[j] == '>' {
					depth--
					if depth == 0 {
						break
					}
				}
			}
			if j >= len(s) {
				return nil, fmt.Errorf("unclosed subtype")
			}
			sub, err := parseSig(s[i+1 : j])
			if err != nil {
				return nil, err
			}
			if len(sub) > 0 && out[len(out)-1].types == "a" {
				out[len(out)-1].sub = &sub[0]
			}
			i = j + 1
		case c == '?' || c == '+' || c == '-':
			if len(out) == 0 {
				return nil, fmt.Errorf("option without parameter")
			}
			out[len(out)-1].opt = c
			i++
		default:
			switch c {
			case 'n', 's', 'b', 'l', 'a', 'o', 'f', 'j', 'x':
				out = append(out, sigParam{types: string(c)})
				i++
			default:
				return nil, fmt.Errorf("unknown type %c", c)
			}
		}
	}
	return out, nil
}

func has(types string, c byte) bool {
	for i := 0; i < len(types); i++ {
		if types[i] == c {
			return true
		}
	}
	return false
}

// validType: does value v fit parameter p.
func validType(v interface{}, p *sigParam) bool {
	if has(p.types, 'x') {
		return true
	}
	j := has(p.types, 'j')
	switch x := v.(type) {
	case nil:
		return j || has(p.types, 'l') // null fits the null type letter and json
	case string:
		return j || has(p.types, 's')
	case float64:
		return j || has(p.types, 'n')
	case bool:
		return j || has(p.types, 'b')
	case *Func:
		return has(p.types, 'f')
	case []interface{}:
		if j {
			return true
		}
		if !has(p.types, 'a') {
			return false
		}
		if p.sub == nil {
			return true
		}
		for _, e := range x {
			if !validType(e, p.sub) {
				return false
			}
		}
		return true
	case map[string]interface{}:
		return j || has(p.types, 'o')
	}
	return false
}

// fitSig checks an argument list against a signature and returns the
// arguments as the function body sees them.
func fitSig(sig []sigParam, args []interface{}, ctx interface{}) ([]interface{}, error) {
	n := len(sig)
	args = append([]interface{}{}, args...)
	if len(args) < n && n > 0 && sig[0].opt == '-' {
		args = append([]interface{}{ctx}, args...)
	}
	for i := len(args); i < n; i++ {
		if sig[i].opt != '?' {
			break
		}
		args = append(args, U)
	}
	variadic := n > 0 && sig[n-1].opt == '+'
	if len(args) < n || (len(args) > n && !variadic) {
		return nil, E("argcount")
	}
	for i, a := range args {
		if IsUndef(a) {
			continue
		}
		var p *sigParam
		if i < n {
			p = &sig[i]
		} else if n > 0 {
			p = &sig[n-1]
		} else {
			continue
		}
		if p.types == "a" {
			if _, isArr := a.([]interface{}); !isArr {
				a = []interface{}{a}
				args[i] = a
			}
		}
		if !validType(a, p) {
			return nil, E(fmt.Sprintf("argtype:%d", i+1))
		}
	}
	if variadic {
		var rest []interface{}
		for _, a := range args[n-1:] {
			if !IsUndef(a) {
				rest = append(rest, a)
			}
		}
		if rest == nil {
			rest = []interface{}{}
		}
		args = append(args[:n-1:n-1], rest)
	}
	return args, nil
}

// Package ref is the reference model: a deliberately naive second
// implementation of the behaviour the property statements specify, on the
// canonical value forms nil | bool | float64 | string | []interface{} |
// map[string]interface{} | *Func, with Undef{} for 'no value'. It shares no
// code with /repo and does not import its parser.
package ref

import (
	"bytes"
	"encoding/json"
	"math"
	"strconv"
	"strings"

	"verif/mc/impl"
)

// Undef is 'no value'.
type Undef = impl.Undef

// U is the undefined value.
var U = Undef{}

// IsUndef reports whether v is 'no value'.
func IsUndef(v interface{}) bool { _, ok := v.(Undef); return ok }

// Err is a predicted evaluation error: the implementation must fail with one of
// the classes (empty Classes: any error).
type Err struct {
	Classes []string
}

func (e *Err) Error() string { return "error[" + strings.Join(e.Classes, "|") + "]" }

// E builds a predicted error.
func E(classes ...string) *Err { return &Err{classes} }

// Unspecified is returned when the statement does not define the outcome of a
// case: the harness then checks totality only.
type Unspecified struct{ Why string }

func (u *Unspecified) Error() string { return "unspecified: " + u.Why }

// Kind names.
const (
	KUndef = "undefined"
	KNull  = "null"
	KBool  = "boolean"
	KNum   = "number"
	KStr   = "string"
	KArr   = "array"
	KObj   = "object"
	KFn    = "function"
	KOther = "other"
)

// KindOf classifies a value.
func KindOf(v interface{}) string {
	switch v.(type) {
	case Undef:
		return KUndef
	case nil:
		return KNull
	case bool:
		return KBool
	case float64:
		return KNum
	case string:
		return KStr
	case []interface{}:
		return KArr
	case map[string]interface{}:
		return KObj
	case *Func, impl.Fn:
		return KFn
	}
	return KOther
}

// Truthy is the JSONata boolean cast.
func Truthy(v interface{}) bool {
	switch x := v.(type) {
	case bool:
		return x
	case float64:
		return x != 0
	case string:
		return x != ""
	case []interface{}:
		for _, e := range x {
			if Truthy(e) {
				return true
			}
		}
		return false
	case map[string]interface{}:
		return len(x) > 0
	}
	return false // undefined, null, functions
}

// DeepEqual is structural, kind-sensitive equality. ok=false when the
// comparison involves functions or nulls in a way the statements leave open.
func DeepEqual(a, b interface{}) (eq bool, ok bool) {
	ka, kb := KindOf(a), KindOf(b)
	if ka == KFn || kb == KFn {
		if ka != kb {
			return false, true
		}
		return false, false
	}
	if ka != kb {
		return false, true
	}
	switch x := a.(type) {
	case nil:
		return true, true // structural equality: null equals null
	case bool:
		return x == b.(bool), true
	case float64:
		return x == b.(float64), true
	case string:
		return x == b.(string), true
	case []interface{}:
		y := b.([]interface{})
		if len(x) != len(y) {
			return false, true
		}
		all := true
		for i := range x {
			e, o := DeepEqual(x[i], y[i])
			if !o {
				return false, false
			}
			if !e {
				all = false
			}
		}
		return all, true
	case map[string]interface{}:
		y := b.(map[string]interface{})
		if len(x) != len(y) {
			return false, true
		}
		all := true
		for k, v := range x {
			w, present := y[k]
			if !present {
				return false, true
			}
			e, o := DeepEqual(v, w)
			if !o {
				return false, false
			}
			if !e {
				all = false
			}
		}
		return all, true
	}
	return false, false
}

// NumString is the string form of a finite number: the shortest decimal that
// reads back to the same double, in positional notation for 1e-7 <= |x| < 1e21
// and exponent notation outside (the ECMAScript / encoding-json convention).
func NumString(f float64) string {
	if f == 0 {
		if math.Signbit(f) {
			return "-0"
		}
		return "0"
	}
	abs := math.Abs(f)
	if abs < 1e-6 || abs >= 1e21 {
		s := strconv.FormatFloat(f, 'e', -1, 64)
		// e-07 -> e-7
		if i := strings.IndexByte(s, 'e'); i >= 0 {
			mant, exp := s[:i], s[i+1:]
			sign := exp[0]
			exp = strings.TrimLeft(exp[1:], "0")
			return mant + "e" + string(sign) + exp
		}
		return s
	}
	return strconv.FormatFloat(f, 'f', -1, 64)
}

// StringOf is the string form used by & and $string: strings as they are,
// functions and missing values the empty string, everything else JSON.
func StringOf(v interface{}) string {
	switch x := v.(type) {
	case Undef:
		return ""
	case string:
		return x
	case *Func, impl.Fn:
		return ""
	case float64:
		return NumString(x)
	}
	return jsonOf(v)
}

func jsonOf(v interface{}) string {
	var sb strings.Builder
	writeJSON(&sb, v)
	return sb.String()
}

func writeJSON(sb *strings.Builder, v interface{}) {
	switch x := v.(type) {
	case nil:
		sb.WriteString("null")
	case bool:
		sb.WriteString(strconv.FormatBool(x))
	case float64:
		sb.WriteString(NumString(x))
	case string:
		sb.WriteString(jsonString(x))
	case *Func, impl.Fn:
		sb.WriteString(`""`)
	case []interface{}:
		sb.WriteByte('[')
		for i, e := range x {
			if i > 0 {
				sb.WriteByte(',')
			}
			writeJSON(sb, e)
		}
		sb.WriteByte(']')
	case map[string]interface{}:
		keys := sortedKeys(x)
		sb.WriteByte('{')
		for i, k := range keys {
			if i > 0 {
				sb.WriteByte(',')
			}
			sb.WriteString(jsonString(k))
			sb.WriteByte(':')
			writeJSON(sb, x[k])
		}
		sb.WriteByte('}')
	}
}

func sortedKeys(m map[string]interface{}) []string {
	keys := make([]string, 0, len(m))
	for k := range m {
		keys = append(keys, k)
	}
	// insertion sort: keeps this file free of package sort for no reason other than size
	for i := 1; i < len(keys); i++ {
		for j := i; j > 0 && keys[j] < keys[j-1]; j-- {
			keys[j], keys[j-1] = keys[j-1], keys[j]
		}
	}
	return keys
}

// Norm converts a reference value to the comparison form (functions -> impl.Fn).
func Norm(v interface{}) interface{} {
	switch x := v.(type) {
	case *Func:
		return impl.Fn{}
	case []interface{}:
		out := make([]interface{}, len(x))
		for i, e := range x {
			out[i] = Norm(e)
		}
		return out
	case map[string]interface{}:
		out := make(map[string]interface{}, len(x))
		for k, e := range x {
			out[k] = Norm(e)
		}
		return out
	}
	return v
}

// jsonString is the JSON text of a string: quotes, backslashes and control
// characters escaped, everything else (including < > &) as it is.
func jsonString(x string) string {
	var b bytes.Buffer
	e := json.NewEncoder(&b)
	e.SetEscapeHTML(false)
	e.Encode(x)
	return strings.TrimRight(b.String(), "\n")
}

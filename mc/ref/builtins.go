package ref

func clampArity(n int) int {
	if n < 1 {
		return 1
	}
	if n > 3 {
		return 3
	}
	return n
}

func asList(v interface{}) []interface{} {
	if a, ok := v.([]interface{}); ok {
		return a
	}
	return []interface{}{v}
}

func init() {
	builtins["map"] = &Func{Name: "map", Arity: 2, Call: func(args []interface{}) (interface{}, error) {
		if len(args) != 2 {
			return nil, E("argcount")
		}
		if IsUndef(args[0]) {
			return U, nil
		}
		f, ok := args[1].(*Func)
		if !ok {
			return nil, E("argtype:2")
		}
		list := asList(args[0])
		k := clampArity(f.Arity)
		out := []interface{}{}
		for i, v := range list {
			full := []interface{}{v, float64(i), interface{}(list)}
			r, err := f.Call(full[:k])
			if err != nil {
				return nil, err
			}
			if !IsUndef(r) {
				out = append(out, r)
			}
		}
		return out, nil
	}}
	builtins["count"] = &Func{Name: "count", Arity: 1, Call: func(args []interface{}) (interface{}, error) {
		if len(args) != 1 {
			return nil, E("argcount")
		}
		if IsUndef(args[0]) {
			return 0.0, nil
		}
		return float64(len(asList(args[0]))), nil
	}}
	builtins["string"] = &Func{Name: "string", Arity: 1, CallCtx: func(args []interface{}, ctx interface{}) (interface{}, error) {
		if len(args) == 0 {
			args = []interface{}{ctx}
		}
		if len(args) != 1 {
			return nil, E("argcount")
		}
		if IsUndef(args[0]) {
			return U, nil
		}
		return StringOf(args[0]), nil
	}}
	builtins["sum"] = &Func{Name: "sum", Arity: 1, Call: func(args []interface{}) (interface{}, error) {
		if len(args) != 1 {
			return nil, E("argcount")
		}
		if IsUndef(args[0]) {
			return U, nil
		}
		s := 0.0
		for _, v := range asList(args[0]) {
			f, ok := v.(float64)
			if !ok {
				return nil, E("other")
			}
			s += f
		}
		return s, nil
	}}
}

func init() {
	builtins["reverse"] = &Func{Name: "reverse", Arity: 1, Call: func(args []interface{}) (interface{}, error) {
		if len(args) != 1 {
			return nil, E("argcount")
		}
		if IsUndef(args[0]) {
			return U, nil
		}
		l := asList(args[0])
		out := make([]interface{}, len(l))
		for i, v := range l {
			out[len(l)-1-i] = v
		}
		return out, nil
	}}
	builtins["append"] = &Func{Name: "append", Arity: 2, Call: func(args []interface{}) (interface{}, error) {
		if len(args) != 2 {
			return nil, E("argcount")
		}
		a, b := args[0], args[1]
		switch {
		case IsUndef(a) && IsUndef(b):
			return U, nil
		case IsUndef(b):
			return a, nil
		case IsUndef(a):
			return b, nil
		}
		return append(append([]interface{}{}, asList(a)...), asList(b)...), nil
	}}
}

// RegisterBuiltin adds a reference definition of a built-in function.
func RegisterBuiltin(name string, f *Func) { builtins[name] = f }

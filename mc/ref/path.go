package ref

import (
	"math"
	"strings"
)

// Path nodes.
type (
	// Path is e1.e2...en with the optional keep-array marker.
	Path struct {
		Steps []Node
		Keep  bool
		// KeepAt is where the marker is printed: -1 after the last step,
		// otherwise after step KeepAt (it migrates to the whole path).
		KeepAt int
	}
	// Pred is X[f1][f2]... with filters applied to the survivors as they are.
	// Nested Pred nodes model heads on which the port nests predicates.
	Pred struct {
		X       Node
		Filters []Node
	}
	// Wild is *.
	Wild struct{}
	// Desc is **.
	Desc struct{}
)

func textPath(sb *strings.Builder, p *Path) {
	for i, s := range p.Steps {
		if i > 0 {
			sb.WriteString(".")
		}
		switch s.(type) {
		case *Path, *Bin, *Cond, *Neg, *Rng:
			sb.WriteString("(")
			text(sb, s)
			sb.WriteString(")")
		default:
			text(sb, s)
		}
		if p.Keep && p.KeepAt == i {
			sb.WriteString("[]")
		}
	}
	if p.Keep && (p.KeepAt < 0 || p.KeepAt >= len(p.Steps)) {
		sb.WriteString("[]")
	}
}

func textPred(sb *strings.Builder, p *Pred) {
	switch p.X.(type) {
	case *Path, *Bin, *Cond, *Neg, *Rng:
		sb.WriteString("(")
		text(sb, p.X)
		sb.WriteString(")")
	default:
		text(sb, p.X)
	}
	for _, f := range p.Filters {
		sb.WriteString("[")
		text(sb, f)
		sb.WriteString("]")
	}
}

// normSeq is the result-sequence normalisation: nothing -> no value, one item
// -> the item unless keep, otherwise the list.
func normSeq(items []interface{}, keep bool) interface{} {
	switch {
	case len(items) == 0:
		return U
	case len(items) == 1 && !keep:
		return items[0]
	}
	return items
}

func headIsVar(n Node) bool {
	// a path that starts with $, $$ or a variable is anchored - with any number of
	// predicates stacked on that head, and under an order-by
	for {
		switch x := n.(type) {
		case *Var:
			return true
		case *Pred:
			n = x.X
			continue
		case *Sort:
			n = x.X
			continue
		}
		return false
	}
}

func evalPath(p *Path, ctx interface{}, env *Env) (interface{}, error) {
	if len(p.Steps) == 0 {
		return U, nil
	}
	// initial list: the members of an array context, a non-array context (or
	// any context under a variable-anchored head) itself.
	var items []interface{}
	if a, ok := ctx.([]interface{}); ok && !headIsVar(p.Steps[0]) {
		items = a
	} else {
		items = []interface{}{ctx}
	}
	last := len(p.Steps) - 1
	var seq []interface{}
	isSeq := false
	for i, step := range p.Steps {
		if cons, ok := step.(*Arr); ok && i == 0 {
			// an array constructor that starts a path is evaluated once, on
			// the whole context
			whole := interface{}(items)
			if len(items) == 1 {
				if _, isArr := ctx.([]interface{}); !isArr {
					whole = items[0]
				}
			}
			v, err := Eval(cons, whole, env)
			if err != nil {
				return nil, err
			}
			arr := v.([]interface{})
			if len(arr) == 0 {
				return U, nil
			}
			items, isSeq = arr, false
			if i == last {
				return arr, nil
			}
			continue
		}
		var results []interface{}
		for _, it := range items {
			r, err := Eval(step, it, env)
			if err != nil {
				return nil, err
			}
			if r == nil {
				// the port treats a null member as absent in some positions and as
				// null in others (README, 'Null handling'); the statements exclude it
				return nil, &Unspecified{"JSON null reached by a path step"}
			}
			if !IsUndef(r) {
				results = append(results, r)
			}
		}
		if i == last && len(results) == 1 {
			if a, ok := results[0].([]interface{}); ok {
				// interpretation clause (i): one array-valued result of the last
				// step is the path's value as it is
				if len(a) == 0 {
					return U, nil
				}
				return a, nil
			}
		}
		_, isCons := step.(*Arr)
		seq = seq[:0:0]
		for _, r := range results {
			if a, ok := r.([]interface{}); ok && !isCons {
				seq = append(seq, a...)
			} else {
				seq = append(seq, r)
			}
		}
		if len(seq) == 0 {
			return U, nil
		}
		items, isSeq = seq, true
	}
	if isSeq {
		return normSeq(items, p.Keep), nil
	}
	return items, nil
}

// applyFilter keeps the items selected by predicate f.
func applyFilter(f Node, list []interface{}, env *Env) ([]interface{}, error) {
	var out []interface{}
	n := len(list)
	for i, it := range list {
		r, err := Eval(f, it, env)
		if err != nil {
			return nil, err
		}
		var positions []float64
		numeric := false
		switch x := r.(type) {
		case float64:
			positions, numeric = []float64{x}, true
		case []interface{}:
			numeric = true
			for _, e := range x {
				if f, ok := e.(float64); ok {
					positions = append(positions, f)
				} else {
					numeric = false
					break
				}
			}
		}
		if numeric {
			hits := 0
			for _, p := range positions {
				idx := int(math.Floor(p))
				if idx < 0 {
					idx += n
				}
				if idx == i {
					hits++
				}
			}
			if hits > 1 {
				return nil, &Unspecified{"index array selects one position more than once"}
			}
			if hits == 1 {
				out = append(out, it)
			}
			continue
		}
		if Truthy(r) {
			out = append(out, it)
		}
	}
	return out, nil
}

func evalPred(p *Pred, ctx interface{}, env *Env) (interface{}, error) {
	v, err := Eval(p.X, ctx, env)
	if err != nil {
		return nil, err
	}
	if IsUndef(v) {
		return U, nil
	}
	list, ok := v.([]interface{})
	if !ok {
		list = []interface{}{v}
	}
	for _, f := range p.Filters {
		list, err = applyFilter(f, list, env)
		if err != nil {
			return nil, err
		}
		if len(list) == 0 {
			return U, nil
		}
	}
	if len(list) == 1 {
		return list[0], nil
	}
	return list, nil
}

// flattenFully lists the non-array leaves of v in order.
func flattenFully(v interface{}, out []interface{}) []interface{} {
	if a, ok := v.([]interface{}); ok {
		for _, e := range a {
			out = flattenFully(e, out)
		}
		return out
	}
	return append(out, v)
}

// evalWild is *: all member values, array values flattened.
func evalWild(ctx interface{}) interface{} {
	var out []interface{}
	switch x := ctx.(type) {
	case map[string]interface{}:
		for _, k := range sortedKeys(x) {
			out = flattenFully(x[k], out)
		}
	case []interface{}:
		for _, e := range x {
			out = flattenFully(e, out)
		}
	}
	return normSeq(out, false)
}

// evalDesc is **: the context and all its descendants in document order,
// arrays being represented by their members.
func evalDesc(ctx interface{}) interface{} {
	var out []interface{}
	var walk func(v interface{})
	walk = func(v interface{}) {
		switch x := v.(type) {
		case []interface{}:
			for _, e := range x {
				walk(e)
			}
		case map[string]interface{}:
			out = append(out, v)
			for _, k := range sortedKeys(x) {
				walk(x[k])
			}
		case Undef:
		default:
			out = append(out, v)
		}
	}
	walk(ctx)
	return normSeq(out, false)
}

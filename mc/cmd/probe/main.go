// Command probe evaluates programs on the implementation: probe '<json input>' '<program>'...
package main

import (
	"encoding/json"
	"fmt"
	"os"

	"verif/mc/impl"
)

func main() {
	var in interface{}
	if err := json.Unmarshal([]byte(os.Args[1]), &in); err != nil {
		fmt.Println("bad input:", err)
		os.Exit(2)
	}
	for _, p := range os.Args[2:] {
		func() {
			defer func() {
				if r := recover(); r != nil {
					fmt.Printf("%-40s => PANIC %v\n", p, r)
				}
			}()
			fmt.Printf("%-40s => %s\n", p, impl.Run(p, in).String())
			if os.Getenv("PROBE_SHOW_INPUT") != "" {
				b, _ := json.Marshal(in)
				fmt.Printf("%-40s    input now %s\n", "", b)
			}
		}()
	}
}

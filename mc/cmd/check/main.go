// Command check runs the verification of one property.
//
//	check -prop C03 -tier quick            (parent: spawns workers, writes evidence)
//	check -prop C03 -replayfile f.json     (re-run one recorded violation)
package main

import (
	"encoding/json"
	"flag"
	"fmt"
	"os"
	"path/filepath"
	"runtime"
	"runtime/pprof"
	"strconv"
	"time"

	"verif/mc/explore"
	"verif/mc/props"
)

func main() {
	var (
		worker   = flag.Bool("worker", false, "internal: run as worker")
		prop     = flag.String("prop", "", "property id")
		tier     = flag.String("tier", "quick", "quick|thorough")
		idx      = flag.Int("idx", 0, "")
		n        = flag.Int("n", 1, "")
		seed     = flag.Int("seed", 0, "")
		deadline = flag.Int64("deadline", 0, "")
		after    = flag.String("after", "", "")
		replay   = flag.String("replay", "", "")
		region   = flag.String("region", "", "")
		until    = flag.String("until", "", "")
		aux      = flag.String("aux", "", "internal: auxiliary task of a property")
		auxargs  = flag.String("auxargs", "", "")
		rfile    = flag.String("replayfile", "", "replay a recorded violation")
		root     = flag.String("root", "/verif", "")
		workers  = flag.Int("workers", 0, "")
		budget   = flag.Int("budget", 0, "wall-clock budget in seconds (0: tier default)")
		list     = flag.Bool("list", false, "list properties")
		racepass = flag.Int("racepass", 0, "internal: run the C06 free-running pass with this many iterations per scenario")
	)
	flag.Parse()
	if *list {
		for _, id := range explore.IDs() {
			fmt.Println(id)
		}
		return
	}
	if *racepass > 0 {
		props.C06RacePass("quick", *racepass)
		return
	}
	if *aux != "" {
		p := explore.Lookup(*aux)
		if p == nil || p.Aux == nil {
			fmt.Println("no aux task for", *aux)
			os.Exit(2)
		}
		p.Aux(*auxargs)
		return
	}
	if *worker {
		if pf := os.Getenv("VERIF_PROF"); pf != "" {
			f, _ := os.Create(pf)
			pprof.StartCPUProfile(f)
			defer pprof.StopCPUProfile()
		}
		explore.WorkerMain(*prop, *tier, *idx, *n, *seed, *deadline, *after, *replay, *region, *until)
		return
	}
	self, _ := os.Executable()
	if s := os.Getenv("VERIF_SEED"); s != "" {
		if v, err := strconv.Atoi(s); err == nil {
			*seed = v
		}
	}
	if *seed < 0 {
		*seed = -*seed
	}
	if t := os.Getenv("VERIF_TIER"); t != "" && *tier == "" {
		*tier = t
	}
	if *rfile != "" {
		b, err := os.ReadFile(*rfile)
		if err != nil {
			fmt.Println(err)
			os.Exit(2)
		}
		var rec struct {
			Property  string
			Tier      string
			Violation *explore.Violation
		}
		if err := json.Unmarshal(b, &rec); err != nil {
			fmt.Println(err)
			os.Exit(2)
		}
		p := explore.Lookup(rec.Property)
		if p == nil {
			fmt.Println("unknown property", rec.Property)
			os.Exit(2)
		}
		env := &explore.Env{PropID: rec.Property, Tier: rec.Tier, Root: *root, Self: self}
		if p.Replay != nil {
			if rc := p.Replay(env, rec.Violation); rc >= 0 { // a negative result asks for the default replay below
				if rc == 1 {
					fmt.Printf("VIOLATION property=%s replay=%s\n", rec.Property, *rfile)
				}
				os.Exit(rc)
			}
		}
		if p.Pre != nil {
			env.Workers = runtime.NumCPU()
			if err := p.Pre(env); err != nil {
				fmt.Println("pre:", err)
				os.Exit(2)
			}
		}
		fails := 0
		for rep := 0; rep < 2; rep++ {
			var keys map[string]*explore.Violation
			var status string
			if rec.Violation.Context {
				keys, status = explore.ContextReplay(env, rec.Violation)
			} else {
				keys, status = explore.Replay(env, rec.Violation)
			}
			fmt.Printf("replay %d: status=%s\n", rep+1, status)
			for k, v := range keys {
				fmt.Printf("  key=%q\n  program: %s\n  input: %s\n  expected: %s\n  observed: %s\n  %s\n", k, v.Detail.Program, v.Detail.Input, v.Detail.Expected, v.Detail.Observed, v.Detail.Note)
			}
			if _, ok := keys[rec.Violation.Key]; ok || (rec.Violation.Kind == "hang" && status == "hang") || (rec.Violation.Kind == "crash" && len(status) > 4 && status[:5] == "crash") {
				fails++
			}
		}
		if fails == 2 {
			fmt.Printf("VIOLATION property=%s replay=%s\n", rec.Property, *rfile)
			os.Exit(1)
		}
		if fails == 0 {
			fmt.Println("not reproduced: the recorded case passes on the current tree")
			os.Exit(0)
		}
		fmt.Println("HARNESS-FLAKY: reproduced only once")
		os.Exit(2)
	}
	p := explore.Lookup(*prop)
	if p == nil {
		fmt.Println("unknown property", *prop)
		os.Exit(2)
	}
	if *workers == 0 {
		*workers = runtime.NumCPU()
		if *workers > 16 {
			*workers = 16
		}
	}
	if *budget == 0 {
		*budget = 100
		if *tier == "thorough" {
			*budget = 3000
		}
		if p.Budget != nil {
			*budget = p.Budget(*tier)
		}
	}
	start := time.Now()
	env := &explore.Env{PropID: *prop, Tier: *tier, Seed: *seed, Workers: *workers, Root: *root, Self: self,
		Deadline: start.Add(time.Duration(*budget) * time.Second)}
	os.MkdirAll(filepath.Join(*root, ".work"), 0o755)
	var res *explore.Result
	if p.Pre != nil {
		if err := p.Pre(env); err != nil {
			fmt.Printf("HARNESS-ERROR property=%s pre: %v\n", *prop, err)
			os.Exit(2)
		}
	}
	if p.Custom != nil {
		res = p.Custom(env)
	} else {
		res = explore.RunE1(env, p)
		if p.Post != nil {
			p.Post(env, res)
		}
	}
	os.Exit(explore.Finish(env, p, res, start))
}
